"""Stream element table for C03/C04: builders, token-sequence reference models, parameter strategies.

token = [payload(list of ints, layout order), param(list), first, last]   (JSON-able)
A reference model maps the list of tokens accepted at the sink to the list of expected source tokens,
each with an optional mask (same shape, None = compare everything).
"""
import copy

from hypothesis import strategies as st

PNAMES = ["a", "b", "c"]
QNAMES = ["p", "q"]


def _m(w):
    return (1 << w) - 1


# ------------------------------------------------------------------------------------ layouts

def st_layout(max_fields=3, max_w=8, with_param=True):
    @st.composite
    def lay(draw):
        nf = draw(st.integers(1, max_fields))
        pl = [[PNAMES[i], draw(st.integers(1, max_w))] for i in range(nf)]
        nq = draw(st.integers(0, 2)) if with_param else 0
        ql = [[QNAMES[i], draw(st.integers(1, 5))] for i in range(nq)]
        return {"pl": pl, "ql": ql}
    return lay()


def mk_desc(lay):
    from litex.soc.interconnect.stream import EndpointDescription
    return EndpointDescription([(n, w) for n, w in lay["pl"]], [(n, w) for n, w in lay["ql"]])


def st_tokens(pw, qw, min_size=0, max_size=24, with_first_last=True, last_p=None):
    """pw/qw: payload / param field widths."""
    tok = st.tuples(
        st.tuples(*[st.integers(0, _m(w)) for w in pw]).map(list),
        st.tuples(*[st.integers(0, _m(w)) for w in qw]).map(list),
        st.integers(0, 1) if with_first_last else st.just(0),
        (st.integers(0, 1) if last_p is None else last_p) if with_first_last else st.just(0),
    ).map(list)
    return st.lists(tok, min_size=min_size, max_size=max_size)


def numbered_tokens(pw, qw, n, lasts=()):
    """deterministic, all-different tokens for the exhaustive schedule sweeps"""
    out = []
    for i in range(n):
        pay = [((i + 1) * 37 + 11 * k) & _m(w) for k, w in enumerate(pw)]
        par = [((i + 1) * 5 + 3 * k) & _m(w) for k, w in enumerate(qw)]
        out.append([pay, par, int(i % 3 == 0), int(i in lasts)])
    return out


def raw(vals, widths):
    r, sh = 0, 0
    for v, w in zip(vals, widths):
        r |= (v & _m(w)) << sh
        sh += w
    return r


def unraw(r, widths):
    out = []
    for w in widths:
        out.append(r & _m(w))
        r >>= w
    return out


# ------------------------------------------------------------------------------------ reference models

def model_identity(p, toks):
    return [(t, None) for t in toks]


def _group(toks, n):
    """yield complete groups: a group closes after n tokens or on a token with last=1"""
    g = []
    for t in toks:
        g.append(t)
        if len(g) == n or t[3]:
            yield g
            g = []


def model_up(nbits_from, ratio, reverse, report_count):
    """_UpConverter/Converter(up): payload = [data(, valid_token_count)]"""
    def model(p, toks):
        out = []
        for g in _group(toks, ratio):
            data, dmask = 0, 0
            for i, t in enumerate(g):
                slot = ratio - 1 - i if reverse else i
                data |= (t[0][0] & _m(nbits_from)) << (slot * nbits_from)
                dmask |= _m(nbits_from) << (slot * nbits_from)
            first = int(any(t[2] for t in g))
            last = int(any(t[3] for t in g))
            if report_count:
                out.append(([[data, len(g)], [], first, last], [[dmask, -1], [], 1, 1]))
            else:
                out.append(([[data], [], first, last], [[dmask], [], 1, 1]))
        return out
    return model


def model_down(nbits_to, ratio, reverse, report_count):
    def model(p, toks):
        out = []
        for t in toks:
            for i in range(ratio):
                n = ratio - 1 - i if reverse else i
                d = (t[0][0] >> (n * nbits_to)) & _m(nbits_to)
                first = int(t[2] and i == 0)
                last = int(t[3] and i == ratio - 1)
                if report_count:
                    out.append(([[d, 0], [], first, last], [[-1, 0], [], 1, 1]))
                else:
                    out.append(([[d], [], first, last], None))
        return out
    return model


def model_pack(pw, n, reverse):
    W = sum(pw)

    def model(p, toks):
        out = []
        for g in _group(toks, n):
            chunks = [[0] * len(pw) for _ in range(n)]
            masks = [[0] * len(pw) for _ in range(n)]
            for i, t in enumerate(g):
                slot = n - 1 - i if reverse else i
                chunks[slot] = list(t[0])
                masks[slot] = [-1] * len(pw)
            pay = [v for c in chunks for v in c]
            pm = [v for c in masks for v in c]
            first = int(any(t[2] for t in g))
            last = int(any(t[3] for t in g))
            out.append(([pay, list(g[-1][1]), first, last], [pm, [-1] * len(g[-1][1]), 1, 1]))
        return out
    return model


def model_unpack(pw, n, reverse):
    k = len(pw)

    def model(p, toks):
        out = []
        for t in toks:
            for i in range(n):
                c = n - 1 - i if reverse else i
                pay = t[0][c * k:(c + 1) * k]
                out.append(([list(pay), list(t[1]), int(t[2] and i == 0), int(t[3] and i == n - 1)], None))
        return out
    return model


def model_stride_up(pl, ratio, reverse):
    """sink fields (name,w); source fields (name, w*ratio); token k of the group lands in slice
    (ratio-1-k if reverse else k) of every field; param of the group's last loaded token."""
    def model(p, toks):
        out = []
        for g in _group(toks, ratio):
            pay = [0] * len(pl)
            pm = [0] * len(pl)
            for i, t in enumerate(g):
                slot = ratio - 1 - i if reverse else i
                for f, (_, w) in enumerate(pl):
                    pay[f] |= (t[0][f] & _m(w)) << (slot * w)
                    pm[f] |= _m(w) << (slot * w)
            first = int(any(t[2] for t in g))
            last = int(any(t[3] for t in g))
            out.append(([pay, list(g[-1][1]), first, last], [pm, [-1] * len(g[-1][1]), 1, 1]))
        return out
    return model


def model_stride_down(pl_to, ratio, reverse):
    """sink fields (name, w*ratio); source fields (name, w)."""
    def model(p, toks):
        out = []
        for t in toks:
            for i in range(ratio):
                c = ratio - 1 - i if reverse else i
                pay = [(t[0][f] >> (c * w)) & _m(w) for f, (_, w) in enumerate(pl_to)]
                out.append(([pay, list(t[1]), int(t[2] and i == 0), int(t[3] and i == ratio - 1)], None))
        return out
    return model


def model_cast(wf, wt, rf, rt):
    def model(p, toks):
        out = []
        for t in toks:
            vals, widths = list(t[0]), list(wf)
            if rf:
                vals, widths = vals[::-1], widths[::-1]
            r = raw(vals, widths)
            wto = list(wt)[::-1] if rt else list(wt)
            o = unraw(r, wto)
            if rt:
                o = o[::-1]
            out.append(([o, [], t[2], t[3]], None))
        return out
    return model


def gearbox_bits(words, w, msb_first):
    bits = []
    for x in words:
        b = [(x >> i) & 1 for i in range(w)]
        bits += b[::-1] if msb_first else b
    return bits


# ------------------------------------------------------------------------------------ element table

class Elem:
    def __init__(self, name, st_params, build, sink_widths, model, bound, token_kw=None, registered=False):
        self.name = name
        self.st_params = st_params        # tier -> strategy
        self.build = build                # params -> dut (with .sink/.source)
        self.sink_widths = sink_widths    # params -> (pw, qw)
        self.model = model                # params -> model fn(p, toks)
        self.bound = bound                # params -> progress bound B (cycles)
        self.token_kw = token_kw or (lambda p: {})
        self.registered = registered


def _lay_w(p):
    return [w for _, w in p["lay"]["pl"]], [w for _, w in p["lay"]["ql"]]


def _S():
    from litex.soc.interconnect import stream
    return stream


ELEMS = {}


def _reg(e):
    ELEMS[e.name] = e


def _simple(name, ctor, st_extra=None, bound=lambda p: 8, registered=True):
    def stp(tier):
        @st.composite
        def s(draw):
            p = {"lay": draw(st_layout())}
            if st_extra:
                p.update(draw(st_extra(tier)))
            return p
        return s()
    _reg(Elem(name, stp, lambda p: ctor(_S(), mk_desc(p["lay"]), p), _lay_w, lambda p: model_identity, bound,
              registered=registered))


_simple("PipeValid", lambda S, d, p: S.PipeValid(d))
_simple("PipeReady", lambda S, d, p: S.PipeReady(d))
_simple("Buffer", lambda S, d, p: S.Buffer(d, pipe_valid=p["pv"], pipe_ready=p["pr"]),
        lambda tier: st.fixed_dictionaries({"pv": st.booleans(), "pr": st.booleans()}))
_simple("SyncFIFO", lambda S, d, p: S.SyncFIFO(d, p["depth"], buffered=p["buffered"]),
        lambda tier: st.fixed_dictionaries({"depth": st.sampled_from([0, 1, 2, 3, 4, 5, 8, 16]), "buffered": st.booleans()}),
        bound=lambda p: p["depth"] + 8)
_simple("Delay", lambda S, d, p: S.Delay(d, p["n"]),
        lambda tier: st.fixed_dictionaries({"n": st.integers(0, 3)}), bound=lambda p: p["n"] + 8)
_simple("CDCsame", lambda S, d, p: S.ClockDomainCrossing(d, "sys", "sys", buffered=p["buffered"]),
        lambda tier: st.fixed_dictionaries({"buffered": st.booleans()}))


def _bufferized(S, d, p):
    from litex.soc.interconnect.stream import DIR_SINK, DIR_SOURCE
    eps = {}
    if p["on_sink"]:
        eps["sink"] = DIR_SINK
    if p["on_source"]:
        eps["source"] = DIR_SOURCE
    inner = {"PipeValid": S.PipeValid, "PipeReady": S.PipeReady}[p["inner"]]
    return S.BufferizeEndpoints(eps, pipe_valid=p["pv"], pipe_ready=p["pr"])(inner(d))


_simple("Bufferized", _bufferized,
        lambda tier: st.fixed_dictionaries({"on_sink": st.booleans(), "on_source": st.booleans(), "pv": st.booleans(),
                                            "pr": st.booleans(), "inner": st.sampled_from(["PipeValid", "PipeReady"])}),
        bound=lambda p: 12)


def _pipeline(S, d, p):
    from migen import Module
    mods = []
    for k in p["stages"]:
        if k == "pv":
            mods.append(S.PipeValid(d))
        elif k == "pr":
            mods.append(S.PipeReady(d))
        elif k == "f2":
            mods.append(S.SyncFIFO(d, 2))
        elif k == "f4b":
            mods.append(S.SyncFIFO(d, 4, buffered=True))
        elif k == "buf":
            mods.append(S.Buffer(d, True, True))

    class Top(Module):
        def __init__(self):
            self.submodules += mods
            self.submodules.pipeline = S.Pipeline(*mods)
            self.sink = self.pipeline.sink
            self.source = self.pipeline.source
    return Top()


_simple("Pipeline", _pipeline,
        lambda tier: st.fixed_dictionaries({"stages": st.lists(st.sampled_from(["pv", "pr", "f2", "f4b", "buf"]), min_size=1, max_size=3)}),
        bound=lambda p: 8 + 6 * len(p["stages"]))


# -- Converter -------------------------------------------------------------------------------------

def _st_conv(tier):
    @st.composite
    def s(draw):
        ratio = draw(st.sampled_from([1, 2, 2, 3, 4, 4, 5, 6, 8]))
        nb = draw(st.integers(1, 8 if ratio <= 4 else 4))
        up = draw(st.booleans())
        return {"from": nb if up else nb * ratio, "to": nb * ratio if up else nb, "ratio": ratio, "up": up,
                "reverse": draw(st.booleans()), "count": draw(st.booleans())}
    return s()


def _conv_model(p):
    if p["ratio"] == 1:
        def ident(pp, toks):
            if p["count"]:
                return [([[t[0][0], 1], [], t[2], t[3]], None) for t in toks]
            return [(t, None) for t in toks]
        return ident
    if p["up"]:
        return model_up(p["from"], p["ratio"], p["reverse"], p["count"])
    return model_down(p["to"], p["ratio"], p["reverse"], p["count"])


_reg(Elem("Converter", _st_conv,
          lambda p: _S().Converter(p["from"], p["to"], reverse=p["reverse"], report_valid_token_count=p["count"]),
          lambda p: ([p["from"]], []), _conv_model, lambda p: 3 * p["ratio"] + 8,
          token_kw=lambda p: {"last_p": st.sampled_from([0, 0, 0, 1])}, registered=True))


# -- StrideConverter -------------------------------------------------------------------------------

def _st_stride(tier):
    @st.composite
    def s(draw):
        ratio = draw(st.sampled_from([1, 2, 2, 3, 4, 6, 8]))
        nf = draw(st.integers(1, 3))
        base = [[PNAMES[i], draw(st.integers(1, 5))] for i in range(nf)]
        nq = draw(st.integers(0, 2))
        ql = [[QNAMES[i], draw(st.integers(1, 4))] for i in range(nq)]
        return {"base": base, "ql": ql, "ratio": ratio, "up": draw(st.booleans()), "reverse": draw(st.booleans())}
    return s()


def _stride_descs(p):
    from litex.soc.interconnect.stream import EndpointDescription
    small = [(n, w) for n, w in p["base"]]
    big = [(n, w * p["ratio"]) for n, w in p["base"]]
    ql = [(n, w) for n, w in p["ql"]]
    if p["up"]:
        return EndpointDescription(small, list(ql)), EndpointDescription(big, list(ql))
    return EndpointDescription(big, list(ql)), EndpointDescription(small, list(ql))


def _stride_build(p):
    df, dt = _stride_descs(p)
    return _S().StrideConverter(df, dt, reverse=p["reverse"])


def _stride_widths(p):
    k = 1 if p["up"] else p["ratio"]
    return [w * k for _, w in p["base"]], [w for _, w in p["ql"]]


def _stride_model(p):
    if p["ratio"] == 1:
        return model_identity
    if p["up"]:
        return model_stride_up(p["base"], p["ratio"], p["reverse"])
    return model_stride_down(p["base"], p["ratio"], p["reverse"])


_reg(Elem("StrideConverter", _st_stride, _stride_build, _stride_widths, _stride_model, lambda p: 3 * p["ratio"] + 8,
          token_kw=lambda p: {"last_p": st.sampled_from([0, 0, 0, 1]), "group_param": p["ratio"] if p["up"] else 0},
          registered=True))


# -- Pack / Unpack ---------------------------------------------------------------------------------

def _st_pack(tier):
    @st.composite
    def s(draw):
        return {"lay": draw(st_layout(max_fields=2, max_w=6)), "n": draw(st.sampled_from([2, 2, 3, 3, 4, 5, 6, 7, 8])), "reverse": draw(st.booleans())}
    return s()


_reg(Elem("Pack", _st_pack, lambda p: _S().Pack(mk_desc(p["lay"]), p["n"], reverse=p["reverse"]), _lay_w,
          lambda p: model_pack(_lay_w(p)[0], p["n"], p["reverse"]), lambda p: 3 * p["n"] + 8,
          token_kw=lambda p: {"last_p": st.sampled_from([0, 0, 0, 1]), "group_param": p["n"]}, registered=True))


def _unpack_widths(p):
    pw, qw = _lay_w(p)
    return pw * p["n"], qw


_reg(Elem("Unpack", _st_pack, lambda p: _S().Unpack(p["n"], mk_desc(p["lay"]), reverse=p["reverse"]), _unpack_widths,
          lambda p: model_unpack(_lay_w(p)[0], p["n"], p["reverse"]), lambda p: 3 * p["n"] + 8))


# -- Cast --------------------------------------------------------------------------------------------

def _st_cast(tier):
    @st.composite
    def s(draw):
        wf = draw(st.lists(st.integers(1, 6), min_size=1, max_size=3))
        total = sum(wf)
        # split total into 1..3 parts
        k = draw(st.integers(1, min(3, total)))
        cuts = sorted(draw(st.lists(st.integers(1, total - 1), min_size=k - 1, max_size=k - 1, unique=True))) if total > 1 and k > 1 else []
        edges = [0] + cuts + [total]
        wt = [edges[i + 1] - edges[i] for i in range(len(edges) - 1)]
        return {"wf": wf, "wt": wt, "rf": draw(st.booleans()), "rt": draw(st.booleans())}
    return s()


def _cast_build(p):
    lf = [("f%d" % i, w) for i, w in enumerate(p["wf"])]
    lt = [("t%d" % i, w) for i, w in enumerate(p["wt"])]
    return _S().Cast(lf, lt, reverse_from=p["rf"], reverse_to=p["rt"])


_reg(Elem("Cast", _st_cast, _cast_build, lambda p: (p["wf"], []),
          lambda p: model_cast(p["wf"], p["wt"], p["rf"], p["rt"]), lambda p: 6))


# -- Shifter (shift = 0: identity with latency 2; other shifts have no documented token semantics) ---

def _shifter_build(p):
    from migen import Signal
    s = _S().Shifter(p["dw"], shift=Signal(max=max(2, p["dw"])))
    return s


_reg(Elem("Shifter0", lambda tier: st.fixed_dictionaries({"dw": st.integers(2, 12)}), _shifter_build,
          lambda p: ([p["dw"]], []), lambda p: model_identity, lambda p: 10, registered=True))


# ------------------------------------------------------------------------------------ compositions

def _st_chain(tier):
    @st.composite
    def s(draw):
        kind = draw(st.sampled_from(["up_fifo_down", "pack_unpack", "fifo_pack", "down_buf_up", "buf_gear_gear"]))
        p = {"kind": kind}
        if kind in ("up_fifo_down", "down_buf_up"):
            p.update({"nb": draw(st.integers(1, 6)), "ratio": draw(st.sampled_from([2, 3, 4])), "reverse": draw(st.booleans()),
                      "depth": draw(st.sampled_from([0, 1, 2, 4])), "mid": draw(st.sampled_from(["fifo", "pv", "pr"]))})
        elif kind in ("pack_unpack", "fifo_pack"):
            p.update({"lay": draw(st_layout(max_fields=2, max_w=5)), "n": draw(st.integers(2, 3)), "reverse": draw(st.booleans()),
                      "depth": draw(st.sampled_from([1, 2, 4]))})
        else:
            i, o = draw(st.sampled_from([(8, 10), (10, 8), (4, 6), (3, 5), (7, 2), (12, 16)]))
            p.update({"i": i, "o": o, "msb": draw(st.booleans())})
        return p
    return s()


def _chain_build(p):
    from migen import Module
    S = _S()
    k = p["kind"]

    def mid(desc):
        if p.get("mid", "fifo") == "fifo":
            return S.SyncFIFO(desc, p["depth"])
        return S.PipeValid(desc) if p["mid"] == "pv" else S.PipeReady(desc)

    if k == "up_fifo_down":
        mods = [S.Converter(p["nb"], p["nb"] * p["ratio"], reverse=p["reverse"]),
                mid([("data", p["nb"] * p["ratio"])]),
                S.Converter(p["nb"] * p["ratio"], p["nb"], reverse=p["reverse"])]
    elif k == "down_buf_up":
        mods = [S.Converter(p["nb"] * p["ratio"], p["nb"], reverse=p["reverse"]),
                mid([("data", p["nb"])]),
                S.Converter(p["nb"], p["nb"] * p["ratio"], reverse=p["reverse"])]
    elif k == "pack_unpack":
        mods = [S.Pack(mk_desc(p["lay"]), p["n"], reverse=p["reverse"]), S.Unpack(p["n"], mk_desc(p["lay"]), reverse=p["reverse"])]
    elif k == "fifo_pack":
        mods = [S.SyncFIFO(mk_desc(p["lay"]), p["depth"]), S.Pack(mk_desc(p["lay"]), p["n"], reverse=p["reverse"])]
    else:
        mods = [S.Buffer([("data", p["i"])]), S.Gearbox(p["i"], p["o"], msb_first=p["msb"]), S.Gearbox(p["o"], p["i"], msb_first=p["msb"])]

    class Top(Module):
        def __init__(self):
            self.submodules += mods
            self.submodules.pipeline = S.Pipeline(*mods)
            self.sink = self.pipeline.sink
            self.source = self.pipeline.source
    return Top()


def _chain_widths(p):
    k = p["kind"]
    if k == "up_fifo_down":
        return [p["nb"]], []
    if k == "down_buf_up":
        return [p["nb"] * p["ratio"]], []
    if k in ("pack_unpack", "fifo_pack"):
        return _lay_w(p)
    return [p["i"]], []


def _chain_model(p):
    k = p["kind"]
    if k == "up_fifo_down":
        # only complete groups come back out (no early last is generated: see token_kw)
        def m(pp, toks):
            n = (len(toks) // p["ratio"]) * p["ratio"]
            return [([t[0], [], int(any(x[2] for x in toks[(i // p["ratio"]) * p["ratio"]:(i // p["ratio"] + 1) * p["ratio"]]) and i % p["ratio"] == 0), 0], None)
                    for i, t in enumerate(toks[:n])]
        return m
    if k == "down_buf_up":
        def m(pp, toks):
            # each wide token is split and regrouped; 'last' closes the group on its final chunk anyway
            return [([t[0], [], t[2], t[3]], None) for t in toks]
        return m
    if k == "pack_unpack":
        def m(pp, toks):
            n = (len(toks) // p["n"]) * p["n"]
            out = []
            for i, t in enumerate(toks[:n]):
                g = toks[(i // p["n"]) * p["n"]:(i // p["n"] + 1) * p["n"]]
                out.append(([t[0], list(g[-1][1]), int(any(x[2] for x in g) and i % p["n"] == 0), 0], None))
            return out
        return m
    if k == "fifo_pack":
        return model_pack(_lay_w(p)[0], p["n"], p["reverse"])
    return None   # gearbox chain: bit-stream oracle in the check


def _chain_token_kw(p):
    k = p["kind"]
    if k in ("up_fifo_down", "pack_unpack"):
        return {"last_p": st.just(0), "group_param": p.get("n", 0)}
    if k == "fifo_pack":
        return {"last_p": st.sampled_from([0, 0, 0, 1]), "group_param": p["n"]}
    if k == "buf_gear_gear":
        return {"with_first_last": False}
    return {}


_reg(Elem("Chain", _st_chain, _chain_build, _chain_widths, _chain_model,
          lambda p: 40 + 4 * p.get("depth", 0) + 6 * p.get("ratio", p.get("n", 4)), token_kw=_chain_token_kw, registered=True))


# ------------------------------------------------------------------------------------ gearbox

GEAR_W = [1, 2, 3, 4, 5, 6, 7, 8, 9, 10, 11, 12, 16, 20, 32, 40, 64, 66]


def st_gearbox(tier):
    import math

    @st.composite
    def s(draw):
        while True:
            i = draw(st.sampled_from(GEAR_W))
            o = draw(st.sampled_from(GEAR_W))
            l = i * o // math.gcd(i, o)
            if l <= 400:
                break
        return {"i": i, "o": o, "msb": draw(st.booleans())}
    return s()


_reg(Elem("Gearbox", st_gearbox, lambda p: _S().Gearbox(p["i"], p["o"], msb_first=p["msb"]), lambda p: ([p["i"]], []),
          lambda p: None, lambda p: 2 * (p["i"] + p["o"]) + 16, token_kw=lambda p: {"with_first_last": False}, registered=True))


ELEMS["Gearbox"].slow = lambda p: p["i"] // p["o"] + 3


def fix_group_params(tokens, n):
    """params constant inside a group of an up-converting element (groups close after n tokens or on last)."""
    if not n:
        return tokens
    out = []
    cnt = 0
    cur = None
    for t in tokens:
        t = list(t)
        if cnt == 0:
            cur = t[1]
        t[1] = list(cur)
        cnt += 1
        if cnt == n or t[3]:
            cnt = 0
        out.append(t)
    return out

"""Runner: sub-checks, sharded generated search, evidence, known findings (DESIGN.md section 3)."""
import os
import sys
import json
import time
import hashlib
import traceback
import multiprocessing as mp

from vlib import env

VERIF = env.VERIF
NPROC = int(os.environ.get("VERIF_JOBS", "16"))
THOROUGH_CAP = int(os.environ.get("VERIF_THOROUGH_CAP", "10"))


# ------------------------------------------------------------------------------------ verdicts

def ok(nt=False, cls=(), **extra):
    d = {"ok": True, "nt": bool(nt), "cls": list(cls)}
    d.update(extra)
    return d


def bad(clause, detail="", key=None, nt=True, cls=(), **extra):
    """A property violation. clause = which oracle clause; key = root-cause class used to match a
    known finding (None = never matches one)."""
    d = {"ok": False, "nt": bool(nt), "cls": list(cls), "clause": clause, "detail": str(detail)[:4000],
         "key": key}
    d.update(extra)
    return d


def skip(reason, **extra):
    """Case outside the property's premise (e.g. configuration rejected by the code under test)."""
    d = {"ok": True, "nt": False, "cls": ["skip:" + reason], "skipped": True}
    d.update(extra)
    return d


class Sub:
    """One sub-check.  kind 'hyp': strategy(tier) -> hypothesis strategy of JSON-able cases.
    kind 'enum': enum(tier) -> list of JSON-able cases (enumerated, sharded by index)."""

    def __init__(self, name, run_case, strategy=None, enum=None, examples=(200, 2000), rule="",
                 shards=(16, 16), exhaustive=False, timeout=(600, 7200), isolate=True, tiers=("quick", "thorough"), shrink=True):
        self.shrink = shrink
        self.name = name
        self.run_case = run_case
        self.strategy = strategy
        self.enum = enum
        # the thorough tier explores at most THOROUGH_CAP times the quick case count per sub-check (plus its larger bounds and the
        # enumerated sub-domains): every thorough tier ends within the hour on 16 cores
        self.examples = (examples[0], min(examples[1], THOROUGH_CAP * examples[0]))
        self.rule = rule
        self.shards = shards
        self.exhaustive = exhaustive
        self.timeout = timeout
        self.isolate = isolate
        self.tiers = tiers

    def execute(self, case):
        try:
            if self.isolate:
                return env.isolated(self.run_case, case)
            env.reset_case_state()
            try:
                return self.run_case(case)
            finally:
                env.restore_stderr()
        except Exception as ex:
            v = dut_crash_verdict(ex)
            if v is None:
                raise
            return v


def dut_crash_verdict(ex):
    """An exception no check handled.  If the code that raised it - the innermost frame that is neither a library
    (site-packages / stdlib) nor harness code - belongs to the tree under test, the design under test crashed on a case
    that the unchanged tree elaborates and runs (otherwise this very check would end as a harness error there): reported as
    a violation.  Anything raised by harness code stays a harness error."""
    import traceback
    repo = os.path.realpath(env.REPO) + os.sep
    verif = os.path.realpath(env.VERIF) + os.sep
    frames = traceback.extract_tb(ex.__traceback__)
    if frames and os.path.realpath(frames[-1].filename).startswith(repo) and \
            isinstance(ex, (AssertionError, ValueError, NotImplementedError)) or type(ex).__name__ == "SoCError":
        # raised by a statement of the code under test itself (assert / raise ValueError / SoCError): a deliberate refusal of the
        # configuration, which no property forbids - the case is outside the premise, not a crash
        return skip("refused by the code under test: %s" % type(ex).__name__, detail=str(ex)[:200])
    for fr in reversed(frames):
        fn = os.path.realpath(fr.filename)
        if "site-packages" in fn or fn.startswith(os.path.realpath(os.path.dirname(os.__file__)) + os.sep):
            continue
        if fn.startswith(repo):
            where = "%s:%s" % (os.path.relpath(fn, repo), fr.name)
            return bad("dut-crash", "the code under test raised %s: %s at %s line %d (%s)" %
                       (type(ex).__name__, str(ex)[:300], where, fr.lineno, (fr.line or "").strip()[:160]), key="dut-crash:" + where)
        if fn.startswith(verif):
            return None
        return None
    return None


def canon(case):
    return json.dumps(case, sort_keys=True, separators=(",", ":"), default=str)


def chash(case):
    return hashlib.blake2b(canon(case).encode(), digest_size=8).hexdigest()


def derive_seed(seed, *parts):
    h = hashlib.blake2b(("%d|" % seed + "|".join(str(p) for p in parts)).encode(), digest_size=8)
    return int.from_bytes(h.digest(), "big") >> 1


def _size(case):
    return len(canon(case))


# ------------------------------------------------------------------------------------ known findings

def load_known():
    p = os.path.join(VERIF, "known_findings.json")
    if not os.path.exists(p):
        return []
    with open(p) as f:
        return json.load(f)["findings"]


def known_keys(prop):
    return {e["key"] for e in load_known() if e["property"] == prop and e.get("status") == "known"}


# ------------------------------------------------------------------------------------ shard worker

class _Acc:
    def __init__(self, prop, sub, kkeys):
        self.prop = prop
        self.sub = sub
        self.kkeys = kkeys
        self.evals = 0
        self.nt = set()
        self.cls = {}
        self.samples = []          # (size, case)
        self.known = {}            # key -> count
        self.fail = {}             # bucket -> (case, verdict)
        self.skipped = 0
        self.cycles = 0
        self.errors = []

    def run(self, case):
        self.evals += 1
        v = self.sub.execute(case)
        for c in v.get("cls", ()):
            self.cls[c] = self.cls.get(c, 0) + 1
        self.cycles += int(v.get("cycles", 0))
        for c, k in (v.get("counts") or {}).items():
            self.cls[c] = self.cls.get(c, 0) + int(k)
        if v.get("skipped"):
            self.skipped += 1
        if v.get("nt"):
            h = chash(case)
            if h not in self.nt:
                self.nt.add(h)
                if len(self.samples) < 40:
                    self.samples.append((_size(case), case))
        return v

    def result(self):
        self.samples.sort(key=lambda s: s[0])
        sm = []
        if self.samples:
            idx = sorted({0, len(self.samples) // 2, len(self.samples) - 1})
            sm = [self.samples[i][1] for i in idx]
        return {"sub": self.sub.name, "evals": self.evals, "nt": sorted(self.nt), "cls": self.cls,
                "samples": sm, "known": self.known, "skipped": self.skipped, "cycles": self.cycles,
                "fail": [{"bucket": b, "case": c, "verdict": v} for b, (c, v) in self.fail.items()],
                "errors": self.errors}


class _Violation(Exception):
    pass


def _bucket(sub, v):
    return "%s|%s|%s" % (sub.name, v.get("clause"), v.get("key"))


def run_shard(prop, sub, shard, nshards, tier, seed, kkeys):
    acc = _Acc(prop, sub, kkeys)
    ti = 0 if tier == "quick" else 1
    if sub.enum is not None:
        cases = sub.enum(tier)
        for i, case in enumerate(cases):
            if i % nshards != shard:
                continue
            v = acc.run(case)
            if not v["ok"]:
                if v.get("key") in kkeys:
                    acc.known[v["key"]] = acc.known.get(v["key"], 0) + 1
                else:
                    b = _bucket(sub, v)
                    if b not in acc.fail or _size(case) < _size(acc.fail[b][0]):
                        acc.fail[b] = (case, v)
        return acc.result()

    import hypothesis
    from hypothesis import given, settings, HealthCheck, Phase
    n = max(1, sub.examples[ti] // nshards)
    state = {"first_fail_t": None, "shrinks": 0, "best": None, "bestv": None, "bucket": None}
    shrink_calls = 150 if tier == "quick" else 2000
    shrink_secs = 45 if tier == "quick" else 600

    def body(case):
        """returns True when the case must be reported to Hypothesis as failing"""
        if state["best"] is not None:
            over = (state["shrinks"] > shrink_calls or time.time() - state["first_fail_t"] > shrink_secs)
            if over:
                # budget exhausted: only the best case so far still fails, so the shrinker stops
                return canon(case) == canon(state["best"])
            state["shrinks"] += 1
        v = acc.run(case)
        if v["ok"]:
            return False
        if v.get("key") in kkeys:
            acc.known[v["key"]] = acc.known.get(v["key"], 0) + 1
            return False
        b = _bucket(sub, v)
        if state["best"] is None:
            state["first_fail_t"] = time.time()
            state["bucket"] = b
        elif b != state["bucket"]:
            # a different root cause met while shrinking: remember it, but do not slip to it
            if b not in acc.fail:
                acc.fail[b] = (case, v)
            return False
        state["best"], state["bestv"] = case, v
        return True

    @hypothesis.seed(derive_seed(seed, prop, sub.name, shard))
    @settings(max_examples=n, database=None, deadline=None, derandomize=False,
              report_multiple_bugs=False, suppress_health_check=list(HealthCheck),
              phases=[Phase.generate, Phase.shrink] if sub.shrink else [Phase.generate])
    @given(sub.strategy(tier))
    def test(case):
        if body(case):
            raise _Violation()          # the only raise site (Hypothesis keys failures by location)

    try:
        test()
    except _Violation:
        pass
    except Exception:
        # e.g. Hypothesis' Flaky report while replaying a shrunk case: the failure itself is what counts
        if state["best"] is None:
            raise
    if state["best"] is not None:
        acc.fail[state["bucket"]] = (state["best"], state["bestv"])
    return acc.result()


def _child(conn, prop, modname, subname, shard, nshards, tier, seed, kkeys):
    try:
        import importlib
        mod = importlib.import_module(modname)
        sub = [s for s in mod.subchecks() if s.name == subname][0]
        r = run_shard(prop, sub, shard, nshards, tier, seed, kkeys)
        conn.send(("ok", r))
    except BaseException:
        conn.send(("err", traceback.format_exc()))
    finally:
        conn.close()


def _schedule(tasks, timeout_of):
    """Run tasks (tuples of _child args) in at most NPROC processes; kill on timeout."""
    ctx = mp.get_context("fork")
    pending = list(tasks)
    running = []
    results = []
    while pending or running:
        while pending and len(running) < NPROC:
            t = pending.pop(0)
            pc, cc = ctx.Pipe(duplex=False)
            p = ctx.Process(target=_child, args=(cc,) + t)
            p.start()
            cc.close()
            running.append((p, pc, t, time.time()))
        still = []
        for p, pc, t, t0 in running:
            if pc.poll(0):
                try:
                    results.append((t, pc.recv()))
                except EOFError:
                    results.append((t, ("err", "worker died without result (exit %s)" % p.exitcode)))
                p.join()
            elif not p.is_alive():
                if pc.poll(0.2):
                    try:
                        results.append((t, pc.recv()))
                    except EOFError:
                        results.append((t, ("err", "worker died (exit %s)" % p.exitcode)))
                else:
                    results.append((t, ("err", "worker died (exit %s)" % p.exitcode)))
                p.join()
            elif time.time() - t0 > timeout_of(t):
                p.kill()
                p.join()
                results.append((t, ("timeout", None)))
            else:
                still.append((p, pc, t, t0))
        running = still
        time.sleep(0.02)
    return results


# ------------------------------------------------------------------------------------ replay / regress

def _load_json(path):
    with open(path) as f:
        return json.load(f)


def write_replay(prop, subname, case, verdict, folder="found"):
    d = os.environ.get("VERIF_FOUND_DIR") or os.path.join(VERIF, "replays", folder)
    os.makedirs(d, exist_ok=True)
    name = "%s-%s-%s.json" % (prop, subname, chash(case))
    path = os.path.join(d, name)
    with open(path, "w") as f:
        json.dump({"property": prop, "sub": subname, "case": case,
                   "clause": verdict.get("clause"), "key": verdict.get("key"),
                   "detail": verdict.get("detail")}, f, indent=1, sort_keys=True, default=str)
    return os.path.relpath(path, VERIF)


def replay_file(mod, path):
    r = _load_json(path if os.path.isabs(path) else os.path.join(VERIF, path))
    sub = [s for s in mod.subchecks() if s.name == r["sub"]][0]
    return r, sub.execute(r["case"])


# ------------------------------------------------------------------------------------ main entry

def main(prop, modname, tier, seed, replay=None):
    t_start = time.time()
    import importlib
    env.install()
    mod = importlib.import_module(modname)
    subs = [s for s in mod.subchecks() if tier in s.tiers]
    ti = 0 if tier == "quick" else 1

    if replay:
        r, v = replay_file(mod, replay)
        print(json.dumps(v, indent=1, default=str))
        if not v["ok"]:
            if v.get("key") in known_keys(prop):
                print("KNOWN-FINDING: property=%s %s" % (prop, v.get("key")))
                return 0
            print("VIOLATION property=%s replay=%s" % (prop, replay))
            return 1
        return 0

    violations = []   # (replay path, text)
    notes = []
    harness_errors = []
    kkeys = known_keys(prop)

    # -- known-finding witnesses and fixed/regress replays ---------------------------------
    replayed = 0
    printed_keys = set()
    for e in load_known():
        if e["property"] != prop:
            continue
        w = e.get("witness")
        if not w:
            continue
        try:
            r, v = replay_file(mod, w)
        except Exception:
            harness_errors.append("witness %s: %s" % (w, traceback.format_exc()))
            continue
        replayed += 1
        if e.get("status") == "known":
            if not v["ok"] and v.get("key") == e["key"]:
                if e["key"] not in printed_keys:        # one line per finding, however many witnesses it has
                    printed_keys.add(e["key"])
                    print("KNOWN-FINDING: property=%s %s" % (prop, e["summary"]))
            elif not v["ok"]:
                violations.append((w, "known-finding witness fails differently: %s" % v.get("clause")))
            else:
                notes.append("known finding %s no longer reproduces" % e["key"])
        else:  # fixed: suppresses nothing, must pass
            if not v["ok"]:
                violations.append((w, "fixed finding is back: %s %s" % (v.get("clause"), v.get("detail"))))
    rdir = os.path.join(VERIF, "replays", "regress", prop)
    if os.path.isdir(rdir):
        for fn in sorted(os.listdir(rdir)):
            if not fn.endswith(".json"):
                continue
            w = os.path.join("replays", "regress", prop, fn)
            try:
                r, v = replay_file(mod, w)
            except Exception:
                harness_errors.append("regress %s: %s" % (w, traceback.format_exc()))
                continue
            replayed += 1
            if not v["ok"] and v.get("key") not in kkeys:
                violations.append((w, "%s %s" % (v.get("clause"), v.get("detail"))))

    # -- generated / enumerated search -----------------------------------------------------
    tasks = []
    for s in subs:
        ns = max(1, min(NPROC, s.shards[ti]))
        if s.enum is None:
            ns = max(1, min(ns, s.examples[ti]))
        for k in range(ns):
            tasks.append((prop, modname, s.name, k, ns, tier, seed, kkeys))
    submap = {s.name: s for s in subs}
    results = _schedule(tasks, lambda t: submap[t[2]].timeout[ti])

    per_sub = {}
    inconclusive = 0
    for t, (status, r) in results:
        name = t[2]
        d = per_sub.setdefault(name, {"evals": 0, "nt": set(), "cls": {}, "samples": [], "known": {},
                                      "skipped": 0, "cycles": 0, "fail": {}, "timeouts": 0})
        if status == "timeout":
            d["timeouts"] += 1
            inconclusive += 1
            continue
        if status == "err":
            harness_errors.append("%s shard %d: %s" % (name, t[3], r))
            continue
        d["evals"] += r["evals"]
        d["nt"].update(r["nt"])
        for k, n in r["cls"].items():
            d["cls"][k] = d["cls"].get(k, 0) + n
        d["samples"].extend(r["samples"])
        for k, n in r["known"].items():
            d["known"][k] = d["known"].get(k, 0) + n
        d["skipped"] += r["skipped"]
        d["cycles"] += r["cycles"]
        for f in r["fail"]:
            b = f["bucket"]
            if b not in d["fail"] or _size(f["case"]) < _size(d["fail"][b]["case"]):
                d["fail"][b] = f

    for name, d in per_sub.items():
        for b, f in sorted(d["fail"].items()):
            path = write_replay(prop, name, f["case"], f["verdict"])
            violations.append((path, "%s: %s" % (f["verdict"].get("clause"), f["verdict"].get("detail"))))

    # -- evidence -------------------------------------------------------------------------------
    evals = sum(d["evals"] for d in per_sub.values()) + replayed
    nts = sum(len(d["nt"]) for d in per_sub.values())
    samples = []
    for name in sorted(per_sub):
        d = per_sub[name]
        d["samples"].sort(key=_size)
        if d["samples"]:
            pick = sorted({0, len(d["samples"]) // 2, len(d["samples"]) - 1})
            for i in pick[:2]:
                samples.append({"sub": name, "case": d["samples"][i]})
    level = getattr(mod, "LEVEL", "exploration")
    cov = {
        "evaluations": evals,
        "distinct_nontrivial": nts,
        "rule": getattr(mod, "RULE", "") + " || per sub-check: " +
                "; ".join("%s: %s" % (s.name, s.rule) for s in subs if s.rule),
        "samples": samples[:40],
        "exhaustive": bool(subs) and all(s.exhaustive for s in subs),
        "replayed_files": replayed,
        "cycles_simulated": sum(d["cycles"] for d in per_sub.values()),
        "budget_exhausted": inconclusive > 0,
        "sub_checks": {name: {"evaluations": d["evals"], "distinct_nontrivial": len(d["nt"]),
                              "classes": dict(sorted(d["cls"].items())), "excluded_known": d["known"],
                              "skipped_outside_premise": d["skipped"], "timeouts": d["timeouts"],
                              "exhaustive": submap[name].exhaustive,
                              "cycles": d["cycles"]}
                       for name, d in sorted(per_sub.items())},
        "excluded_known": {k: n for d in per_sub.values() for k, n in d["known"].items()},
        "notes": notes,
    }
    if level == "translation_validation":
        cov["programs"] = sum(d["cls"].get("program", 0) for d in per_sub.values()) or evals
        cov["disagreements_checked"] = sum(d["cls"].get("compared_signal_instants", 0) for d in per_sub.values())
    ev = {
        "property_id": prop, "tier": tier, "seed": int(seed), "level": level, "coverage": cov,
        "assumptions": list(getattr(mod, "ASSUMPTIONS", [])),
        "wall_s": round(time.time() - t_start, 2),
        "violations": len(violations),
    }
    evdir = os.environ.get("VERIF_EVIDENCE_DIR") or os.path.join(VERIF, "evidence")
    os.makedirs(evdir, exist_ok=True)
    with open(os.path.join(evdir, prop + ".json"), "w") as f:
        json.dump(ev, f, indent=1, sort_keys=True, default=str)

    print("%s tier=%s seed=%s evaluations=%d distinct_nontrivial=%d wall=%.1fs" %
          (prop, tier, seed, evals, nts, time.time() - t_start))
    for name, d in sorted(per_sub.items()):
        print("  %-28s evals=%-7d nt=%-6d skipped=%-5d known=%s timeouts=%d" %
              (name, d["evals"], len(d["nt"]), d["skipped"], d["known"] or "-", d["timeouts"]))
    for n in notes:
        print("NOTE: " + n)
    if harness_errors:
        for h in harness_errors:
            print("HARNESS-ERROR: " + h, file=sys.stderr)
        return 2
    if inconclusive > max(2, len(tasks) // 4):
        print("HARNESS-ERROR: %d shards ran out of budget" % inconclusive, file=sys.stderr)
        return 2
    if violations:
        for path, text in violations:
            print("DETAIL: %s: %s" % (path, text[:400].replace("\n", " ")))
            print("VIOLATION property=%s replay=%s" % (prop, path))
        return 1
    return 0

"""Shared case runner for C03/C04: build one stream element, drive it with generated schedules,
return the handshake logs and monitor results."""
import itertools

from hypothesis import strategies as st

from vlib import bench, streams


def st_case(elem_names, tier, max_tokens=24, min_tokens=0, long_stalls=False):
    @st.composite
    def case(draw):
        name = draw(st.sampled_from(elem_names))
        e = streams.ELEMS[name]
        p = draw(e.st_params(tier))
        pw, qw = e.sink_widths(p)
        kw = dict(e.token_kw(p))
        gp = kw.pop("group_param", 0)
        mn = min_tokens if draw(st.integers(0, 9)) == 0 else max(min_tokens, 5)
        toks = draw(streams.st_tokens(pw, qw, min_size=mn, max_size=max(mn, max_tokens), **kw))
        toks = streams.fix_group_params(toks, gp)
        ps = draw(bench.st_schedule())
        cs = draw(bench.st_schedule())
        if long_stalls and draw(st.booleans()):
            cs = ["pre", draw(st.integers(0, 6)), 1, ["rle", [[0, draw(st.integers(2, 12))], [1, draw(st.integers(1, 3))]] * 2]]
        g = draw(st.one_of(st.none(), st.integers(0, 2 ** 16)))
        # a consumer whose ready answers valid (raised the cycle after it sees valid, dropped again after the handshake): an element
        # must never wait for ready before it raises valid
        wv = draw(st.integers(0, 3)) == 0
        return {"elem": name, "p": p, "toks": toks, "ps": ps, "cs": cs, "g": g, "wv": wv}
    return case()


def tok_tuple(t):
    return (tuple(t[0]), tuple(t[1]), t[2], t[3])


class Result:
    pass


class Rejected(Exception):
    """the constructor of the element refused the parameters (outside the property's premise)"""


def run_case(case, coop_cycles=0, endless=False):
    """Phase 1: generated schedules until the producer ran out of tokens (bounded).  Phase 2 (drain):
    consumer always ready, producer offers every cycle; ends after a quiet period.
    With endless=True the producer has an unbounded token supply in phase 2, for coop_cycles cycles."""
    e = streams.ELEMS[case["elem"]]
    p = case["p"]
    try:
        dut = e.build(p)
    except (ValueError, AssertionError, TypeError) as ex:
        raise Rejected("%s: %s" % (type(ex).__name__, ex))
    pw, qw = e.sink_widths(p)
    toks = [tok_tuple(t) for t in case["toks"]]
    B = e.bound(p)
    n = len(toks)
    main = 6 * n + 40
    extra = None
    if endless:
        def extra(i):
            return (tuple(((i * 7 + 3 * k + 1) & ((1 << w) - 1)) for k, w in enumerate(pw)),
                    tuple(((i * 3 + k) & ((1 << w) - 1)) for k, w in enumerate(qw)), 0, 0)
    prod = bench.Producer(dut.sink, toks, case["ps"], garbage_seed=case["g"], until=main, endless=None)
    cons = bench.Consumer(dut.source, case["cs"], until=main, wait_valid=bool(case.get("wv")))
    sink_mon = bench.Probe([dut.sink.valid, dut.sink.ready])
    quiet = {"n": 0, "last_got": 0, "last_sent": 0}
    slow = getattr(e, "slow", None)
    per_tok = (slow(p) if slow else 8) * (2 if case.get("wv") else 1)     # a consumer that answers valid takes two cycles per token
    total_limit = main + per_tok * n + 4 * B + 64 + coop_cycles

    state = {"phase2_start": None}

    def stop(t):
        if t < main:
            # early switch: producer finished all tokens during phase 1
            if prod.done() and state["phase2_start"] is None:
                pass
            return False
        if endless:
            if state["phase2_start"] is None:
                state["phase2_start"] = t
                prod.endless = extra
            return t >= state["phase2_start"] + coop_cycles
        if len(cons.got) != quiet["last_got"] or len(prod.sent) != quiet["last_sent"]:
            quiet["last_got"], quiet["last_sent"], quiet["n"] = len(cons.got), len(prod.sent), 0
        else:
            quiet["n"] += 1
        return prod.done() and quiet["n"] > 2 * B + 8

    cycles = bench.run(dut, [prod, cons, sink_mon], total_limit, stop=stop)
    r = Result()
    r.elem, r.p, r.B, r.main = e, p, B, main
    r.cycles = cycles
    r.sent = prod.sent
    r.got = cons.got
    r.prod, r.cons = prod, cons
    r.sink_trace = sink_mon.trace
    r.phase2_start = state["phase2_start"]
    r.undelivered = n - len(prod.sent) if not endless else 0
    return r


def compare(expected, got):
    """expected: list of (token, mask) ; got: list of token tuples.  Returns None or (index, text)."""
    for i, (exp, g) in enumerate(zip(expected, got)):
        et, mk = exp
        et = tok_tuple(et)
        if mk is None:
            if et != g:
                return i, "output %d: expected %r got %r" % (i, et, g)
            continue
        for part in (0, 1):
            for k, (a, b) in enumerate(zip(et[part], g[part])):
                m = mk[part][k]
                if m == -1:
                    if a != b:
                        return i, "output %d %s[%d]: expected %#x got %#x" % (i, "payload" if part == 0 else "param", k, a, b)
                elif (a & m) != (b & m):
                    return i, "output %d %s[%d]: expected %#x got %#x under mask %#x" % (i, "payload" if part == 0 else "param", k, a & m, b & m, m)
        if mk[2] and et[2] != g[2]:
            return i, "output %d first: expected %d got %d" % (i, et[2], g[2])
        if mk[3] and et[3] != g[3]:
            return i, "output %d last: expected %d got %d" % (i, et[3], g[3])
    if len(got) > len(expected):
        return len(expected), "%d outputs, only %d expected (extra: %r)" % (len(got), len(expected), got[len(expected)])
    if len(got) < len(expected):
        return len(got), "%d outputs, %d expected (missing: %r)" % (len(got), len(expected), tok_tuple(expected[len(got)][0]))
    return None

"""Generated FHDL programs for C01 (JSON case -> Migen module) and Hypothesis strategies for them.

Tier 1 (assignment-normal form): arithmetic / shift / compare operators have only leaves as operands and
their result is assigned to a signal; only bitwise operators and Mux nest; conditions are leaves,
comparisons or bitwise expressions.  In this form Verilog's context-width evaluation and Migen's unbounded
integers cannot legitimately part.  Tier 2 nests arithmetic (width-divergent assignments are tainted by vsim).
"""
from hypothesis import strategies as st


def _m(w):
    return (1 << w) - 1


# ------------------------------------------------------------------------------------ strategies

def st_program(tier2=False, with_mem=True, domains=("sys",), max_sigs=6):
    @st.composite
    def prog(draw):
        nin = draw(st.integers(2, 4))
        nint = draw(st.integers(2, max_sigs))
        sigs = []
        for i in range(nin):
            sigs.append({"name": "i%d" % i, "w": draw(st.sampled_from([1, 2, 3, 4, 4, 5, 6, 8])), "signed": draw(st.booleans()), "role": "in"})
        doms = list(domains)
        if draw(st.integers(0, 7)) == 0:
            # an ordinary input that happens to be called like a clock-domain signal: the namespace must keep the two apart
            sigs[draw(st.integers(0, nin - 1))]["name"] = draw(st.sampled_from(doms)) + draw(st.sampled_from(["_clk", "_clk", "_rst"]))
        for i in range(nint):
            w = draw(st.sampled_from([1, 2, 3, 4, 5, 6, 7, 8, 9, 9, 13, 17]))
            signed = draw(st.booleans())
            role = draw(st.sampled_from(["comb", "comb", "sync"]))
            lo = -(1 << (w - 1)) if signed else 0
            hi = (1 << (w - 1)) - 1 if signed else _m(w)
            sigs.append({"name": "s%d" % i, "w": w, "signed": signed, "role": role, "dom": draw(st.sampled_from(doms)) if role == "sync" else None,
                         "reset": draw(st.sampled_from([0, 0, lo, hi, min(1, hi)])),
                         "reset_less": role == "sync" and draw(st.integers(0, 5)) == 0})

        def leaf(avail):
            k = draw(st.integers(0, 9))
            if k <= 4 or not avail:
                return ["s", draw(st.sampled_from(avail))] if avail else ["c", 1, 1, False]
            if k == 5:
                w = draw(st.integers(1, 8))
                signed = draw(st.booleans())
                lo = -(1 << (w - 1)) if signed else 0
                hi = (1 << (w - 1)) - 1 if signed else _m(w)
                v = draw(st.one_of(st.integers(lo, hi), st.sampled_from([lo, hi, 0, -1 if signed else hi])))
                return ["c", v, w, signed]
            if k == 6:
                s_ = draw(st.sampled_from(avail))
                w = sigs[s_]["w"]
                a = draw(st.integers(0, w - 1))
                b = draw(st.integers(a + 1, w))
                return ["sl", ["s", s_], a, b]
            if k == 7:
                return ["cat", [["s", draw(st.sampled_from(avail))] for _ in range(draw(st.integers(2, 3)))]]
            if k == 8:
                return ["rep", ["s", draw(st.sampled_from(avail))], draw(st.integers(1, 3))]
            if draw(st.booleans()):
                # slice of a Cat / Replicate (complex slice: lowered by the back end, incl. slices that overhang an
                # element boundary by one bit or more)
                parts = [draw(st.sampled_from(avail)) for _ in range(draw(st.integers(2, 3)))]
                if draw(st.integers(0, 3)) == 0:
                    n = draw(st.integers(1, 3))
                    inner = ["rep", ["s", parts[0]], n]
                    total = sigs[parts[0]]["w"] * n
                else:
                    inner = ["cat", [["s", p_] for p_ in parts]]
                    total = sum(sigs[p_]["w"] for p_ in parts)
                bounds = [0]
                for p_ in parts:
                    bounds.append(bounds[-1] + sigs[p_]["w"])
                a = draw(st.one_of(st.integers(0, total - 1), st.sampled_from([max(0, b_ - 1) for b_ in bounds[1:]] + [max(0, b_ - 2) for b_ in bounds[1:]])))
                a = min(a, total - 1)
                b = draw(st.one_of(st.integers(a + 1, total), st.sampled_from([min(total, b_ + 1) for b_ in bounds[1:]])))
                b = max(a + 1, min(b, total))
                return ["sl", inner, a, b]
            s_ = draw(st.sampled_from(avail))
            return ["sl", ["s", s_], 0, sigs[s_]["w"]]          # full-width slice

        # "~" and unary minus count as arithmetic here: Migen evaluates them on unbounded integers (~0 == -1 for an
        # unsigned operand) while Verilog inverts at the operand's width once the printer's promotion wrapper
        # $signed({1'd0, ...}) makes it self-determined - semantic-gap class (i), so in tier 1 they only take leaves
        ARITH = ["+", "-", "*", "<<", ">>", "<", "<=", "==", "!=", ">", ">=", "neg", "~"]
        BIT = ["&", "|", "^"]

        def expr(avail, depth=0):
            k = draw(st.integers(0, 9))
            if tier2 and depth < 3 and k <= 4:
                op = draw(st.sampled_from(ARITH + BIT))
                if op in ("neg", "~"):
                    return ["op", op, [expr(avail, depth + 1)]]
                if op in ("<<", ">>"):
                    return ["op", op, [expr(avail, depth + 1), ["c", draw(st.integers(0, 7)), 3, False]]]
                return ["op", op, [expr(avail, depth + 1), expr(avail, depth + 1)]]
            if k <= 3:
                op = draw(st.sampled_from(ARITH))
                if op in ("neg", "~"):
                    return ["op", op, [leaf(avail)]]
                if op in ("<<", ">>"):
                    # shift amount: small unsigned leaf
                    amt = draw(st.one_of(st.builds(lambda v: ["c", v, 3, False], st.integers(0, 7)),
                                         st.sampled_from([["s", a] for a in avail if not sigs[a]["signed"] and sigs[a]["w"] <= 3] or [["c", 1, 2, False]])))
                    return ["op", op, [leaf(avail), amt]]
                return ["op", op, [leaf(avail), leaf(avail)]]
            if k <= 5 and depth < 2:
                op = draw(st.sampled_from(BIT))
                return ["op", op, [bitexpr(avail, depth + 1), bitexpr(avail, depth + 1)]]
            if k == 6 and depth < 2:
                return ["mux", cond(avail), bitexpr(avail, depth + 1), bitexpr(avail, depth + 1)]
            if k == 7 and avail:
                # Array read, uniform signedness (mixed signedness is semantic-gap class vi)
                sg = draw(st.booleans())
                cands = [a for a in avail if sigs[a]["signed"] == sg]
                if len(cands) >= 2:
                    n = draw(st.integers(2, 4))
                    ch = [["s", draw(st.sampled_from(cands))] for _ in range(n)]
                    keys = [a for a in avail if not sigs[a]["signed"] and sigs[a]["w"] <= 2]
                    if keys:
                        return ["arr", ch, ["s", draw(st.sampled_from(keys))]]
            return leaf(avail)

        def bitexpr(avail, depth):
            if depth >= 2 or draw(st.booleans()):
                return leaf(avail)
            op = draw(st.sampled_from(BIT))
            return ["op", op, [bitexpr(avail, depth + 1), bitexpr(avail, depth + 1)]]

        def cond(avail):
            k = draw(st.integers(0, 4))
            if k == 0:
                return ["op", draw(st.sampled_from(["<", "<=", "==", "!=", ">", ">="])), [leaf(avail), leaf(avail)]]
            if k == 1:
                return ["op", draw(st.sampled_from(["&", "|", "^"])), [leaf(avail), leaf(avail)]]
            if tier2 and k == 2:
                return expr(avail, 2)
            return leaf(avail)

        def target(t, targets=(), avail=()):
            k = draw(st.integers(0, 6))
            w = sigs[t]["w"]
            if k == 6 and len(targets) >= 2:
                # Array on the left-hand side: the element is chosen by a small unsigned signal, preferably a register
                # of the same block (its index may be assigned earlier in the very same block)
                keys = [a for a in list(targets) + list(avail) if not sigs[a]["signed"] and sigs[a]["w"] <= 3]
                if keys:
                    n = draw(st.integers(2, 4))
                    return ["arr", [["s", draw(st.sampled_from(list(targets)))] for _ in range(n)], ["s", draw(st.sampled_from(keys))]]
            if k == 0 and w >= 2:
                a = draw(st.integers(0, w - 1))
                b = draw(st.integers(a + 1, w))
                return ["sl", ["s", t], a, b]
            if k == 1 and w >= 2:
                # Cat of two slices of the target on the left-hand side
                cut = draw(st.integers(1, w - 1))
                return ["cat", [["sl", ["s", t], 0, cut], ["sl", ["s", t], cut, w]]]
            return ["s", t]

        def pointer_pattern(targets, avail):
            keys = [a for a in targets if not sigs[a]["signed"] and sigs[a]["w"] <= 3]
            if not keys or len(targets) < 2:
                return None
            key = draw(st.sampled_from(keys))
            elems = draw(st.permutations(list(targets)))[:draw(st.integers(2, 4))]
            return [["eq", ["s", key], expr(avail)],
                    ["eq", ["arr", [["s", e_] for e_ in elems], ["s", key]], expr(avail)]]

        def stmts(targets, avail, depth):
            out = []
            for _ in range(draw(st.integers(1, 3))):
                k = draw(st.integers(0, 9))
                if k == 4 and len(targets) >= 2:
                    # pointer pattern: a register is assigned and, later in the same block, selects the element of an Array
                    # on the left-hand side (non-blocking semantics: the element is chosen by the OLD value)
                    pp = pointer_pattern(targets, avail)
                    if pp:
                        out.extend(pp)
                        continue
                if k <= 4 or depth >= 2:
                    out.append(["eq", target(draw(st.sampled_from(targets)), targets if len(targets) > 1 else (), avail), expr(avail)])
                elif k <= 7:
                    elifs = [[cond(avail), stmts(targets, avail, depth + 1)] for _ in range(draw(st.integers(0, 2)))]
                    out.append(["if", cond(avail), stmts(targets, avail, depth + 1), elifs,
                                stmts(targets, avail, depth + 1) if draw(st.booleans()) else []])
                else:
                    ts = draw(st.sampled_from(avail)) if avail else None
                    if ts is None:
                        continue
                    w = sigs[ts]["w"]
                    signed = sigs[ts]["signed"]
                    lo = -(1 << (w - 1)) if signed else 0
                    hi = (1 << (w - 1)) - 1 if signed else _m(w)
                    keys = draw(st.lists(st.integers(lo, hi), min_size=1, max_size=4, unique=True))
                    cases = [[kv, stmts(targets, avail, depth + 1)] for kv in keys]
                    test = ["s", ts]
                    if not signed and draw(st.integers(0, 3)) == 0:
                        # the complement of an unsigned selector: as wide as the selector in both semantics (the simulator
                        # truncates the test to the width of the tested expression), so no width divergence can arise
                        test = ["op", "~", [["s", ts]]]
                    out.append(["case", test, cases, stmts(targets, avail, depth + 1) if draw(st.booleans()) else None])
            return out

        # comb signals form a DAG: comb signal k may read inputs, sync signals and comb signals with a lower index
        body = {"comb": [], "sync": {d: [] for d in doms}}
        # a combinatorial demultiplexer: Array(d0, d1, ..)[ik].eq(value) with a select input that nothing else reads
        demux = None
        if draw(st.integers(0, 3)) == 0:
            kidx = len(sigs)
            sigs.append({"name": "ik", "w": 2, "signed": False, "role": "in"})
            dw_, dsg = draw(st.sampled_from([1, 3, 4, 8])), draw(st.booleans())
            dd = []
            for j_ in range(draw(st.integers(2, 4))):
                dd.append(len(sigs))
                sigs.append({"name": "d%d" % j_, "w": dw_, "signed": dsg, "role": "comb", "dom": None,
                             "reset": draw(st.sampled_from([0, 0, 1 if not dsg or dw_ > 1 else 0])), "reset_less": False})
            demux = (kidx, dd)
        idx_in = [i for i, s in enumerate(sigs) if s["role"] == "in" and not (demux and i == demux[0])]
        idx_sync = [i for i, s in enumerate(sigs) if s["role"] == "sync"]
        idx_comb = [i for i, s in enumerate(sigs) if s["role"] == "comb" and not (demux and i in demux[1])]
        for n, t in enumerate(idx_comb):
            avail = idx_in + idx_sync + idx_comb[:n]
            body["comb"].append(stmts([t], avail, 0))
        if demux:
            body["comb"].append([["eq", ["arr", [["s", d_] for d_ in demux[1]], ["s", demux[0]]], expr(idx_in + idx_sync)]])
            idx_in = idx_in + [demux[0]]
        for d in doms:
            ts = [i for i in idx_sync if sigs[i]["dom"] == d]
            if ts:
                avail = idx_in + idx_sync + idx_comb
                for _ in range(draw(st.integers(1, 2))):
                    blk = stmts(ts, avail, 0)
                    if draw(st.integers(0, 3)) == 0:
                        # the pointer pattern at the top level of the block (executed at every edge)
                        pp = pointer_pattern(ts, avail)
                        if pp:
                            pos = draw(st.integers(0, len(blk)))
                            blk[pos:pos] = pp
                    body["sync"][d].append(blk)
        mems = []
        if with_mem and draw(st.integers(0, 2)) == 0:
            width = draw(st.sampled_from([4, 8, 12, 16, 5, 9, 10]))
            depth = draw(st.sampled_from([2, 4, 8]))
            gran = draw(st.sampled_from([0, 0, 4, 8]))
            if gran and width % gran:
                gran = 0
            ports = []
            idx_src = idx_in + (idx_sync if not tier2 else [])
            for pn_ in range(draw(st.integers(1, 2))):
                # at most one write-capable port: two ports writing one word in the same instant is a collision whose
                # outcome no semantics defines
                wr = draw(st.booleans()) and not any(p_["wr"] for p_ in ports)
                mode = draw(st.sampled_from(["WRITE_FIRST", "READ_FIRST", "NO_CHANGE"]))
                if not wr and mode == "NO_CHANGE":
                    mode = "READ_FIRST"     # convert() raises TypeError for a read-only NO_CHANGE port (not convertible)
                if mode == "NO_CHANGE" and gran:
                    gran_p = 0              # semantic-gap class (iii) excluded
                else:
                    gran_p = gran
                ports.append({"wr": wr, "mode": mode, "gran": gran_p if wr else 0, "re": draw(st.booleans()),
                              "async": draw(st.integers(0, 3)) == 0, "dom": draw(st.sampled_from(doms)),
                              # address / data / enables from inputs or from registers (which change at the same edge)
                              # (tier 1 only: in tier 2 a register may carry the intermediate-overflow divergence, which the
                              # evaluator tracks per signal, not per memory word)
                              "adr": draw(st.sampled_from(idx_src)), "dat": draw(st.sampled_from(idx_src)),
                              "we": draw(st.sampled_from(idx_src)), "ren": draw(st.sampled_from(idx_in))})
            if len({p_["dom"] for p_ in ports}) > 1:
                # known finding c01:mem-multiclock-read-first: with ports on different clocks the back end forces every
                # port to READ_FIRST while the simulated design keeps the requested mode - excluded by construction
                for p_ in ports:
                    if not p_["async"]:
                        p_["mode"] = "READ_FIRST"
            init = draw(st.one_of(st.none(), st.lists(st.one_of(st.integers(0, _m(width)), st.just(_m(width)), st.just(1 << (width - 1))), min_size=0, max_size=depth)))
            mems.append({"w": width, "d": depth, "init": init, "ports": ports})
        ncyc = draw(st.integers(6, 24))
        stim = []
        # sparse stimuli: from one instant to the next a single input changes (everything that depends on that input alone -
        # an Array key, a select, a memory address - must follow although nothing else moves)
        sparse = draw(st.integers(0, 2)) == 0
        for c_ in range(ncyc):
            row = []
            one = draw(st.integers(0, len(idx_in) - 1)) if sparse and c_ else None
            for j_, i in enumerate(idx_in):
                w = sigs[i]["w"]
                if one is not None and j_ != one:
                    row.append(stim[-1][j_])
                    continue
                row.append(draw(st.one_of(st.integers(0, _m(w)), st.sampled_from([0, _m(w), 1 << (w - 1), (1 << (w - 1)) - 1 if w > 1 else 0]))))
            stim.append(row)
        rst = [draw(st.integers(0, 9)) == 0 for _ in range(ncyc)] if not mems else [False] * ncyc
        regular_comb = draw(st.integers(0, 4)) != 0
        # some driven signals are ports of the converted module ('output wire' / 'output reg' declarations in the header)
        outs = [i for i, s_ in enumerate(sigs) if s_["role"] != "in" and draw(st.integers(0, 3)) == 0]
        return {"sigs": sigs, "body": body, "mems": mems, "stim": stim, "rst": rst, "doms": doms,
                "regular_comb": regular_comb, "outs": outs}
    return prog()


# ------------------------------------------------------------------------------------ builder

def build(case):
    """returns (module, sig objects list, memory objects, port signal lists)"""
    from migen import Module, Signal, If, Case, Cat, Replicate, Mux, Array, Memory, ClockDomain, Constant
    from migen.fhdl import specials
    sigs = [Signal((s["w"], s["signed"]), name=s["name"], reset=s.get("reset", 0) if s["role"] != "in" else 0,
                   reset_less=bool(s.get("reset_less"))) for s in case["sigs"]]
    m = Module()
    for d in case["doms"]:
        setattr(m.clock_domains, "cd_" + d, ClockDomain(d))

    def E(e):
        k = e[0]
        if k == "s":
            return sigs[e[1]]
        if k == "c":
            return Constant(e[1], (e[2], e[3]))
        if k == "sl":
            return E(e[1])[e[2]:e[3]]
        if k == "cat":
            return Cat(*[E(x) for x in e[1]])
        if k == "rep":
            return Replicate(E(e[1]), e[2])
        if k == "mux":
            return Mux(E(e[1]), E(e[2]), E(e[3]))
        if k == "arr":
            return Array([E(x) for x in e[1]])[E(e[2])]
        if k == "op":
            op, a = e[1], [E(x) for x in e[2]]
            if op == "neg":
                return -a[0]
            if op == "~":
                return ~a[0]
            return {"+": lambda: a[0] + a[1], "-": lambda: a[0] - a[1], "*": lambda: a[0] * a[1], "<<": lambda: a[0] << a[1],
                    ">>": lambda: a[0] >> a[1], "<": lambda: a[0] < a[1], "<=": lambda: a[0] <= a[1], "==": lambda: a[0] == a[1],
                    "!=": lambda: a[0] != a[1], ">": lambda: a[0] > a[1], ">=": lambda: a[0] >= a[1], "&": lambda: a[0] & a[1],
                    "|": lambda: a[0] | a[1], "^": lambda: a[0] ^ a[1]}[op]()
        raise ValueError(k)

    def S(stmts):
        out = []
        for s in stmts:
            k = s[0]
            if k == "eq":
                out.append(E(s[1]).eq(E(s[2])))
            elif k == "if":
                st_ = If(E(s[1]), *S(s[2]))
                for c, body in s[3]:
                    st_ = st_.Elif(E(c), *S(body))
                if s[4]:
                    st_ = st_.Else(*S(s[4]))
                out.append(st_)
            elif k == "case":
                cases = {kv: S(body) for kv, body in s[2]}
                if s[3] is not None:
                    cases["default"] = S(s[3])
                out.append(Case(E(s[1]), cases))
        return out

    for blk in case["body"]["comb"]:
        m.comb += S(blk)
    for d, blks in case["body"]["sync"].items():
        for blk in blks:
            getattr(m.sync, d).__iadd__(S(blk))
    mem_objs = []
    extra = []
    for k, mm in enumerate(case["mems"]):
        mem = Memory(mm["w"], mm["d"], init=mm["init"], name="mem%d" % k)
        m.specials += mem
        ports = []
        for pn, p in enumerate(mm["ports"]):
            mode = {"WRITE_FIRST": specials.WRITE_FIRST, "READ_FIRST": specials.READ_FIRST, "NO_CHANGE": specials.NO_CHANGE}[p["mode"]]
            port = mem.get_port(write_capable=p["wr"], async_read=p["async"], has_re=p["re"] and not p["async"],
                                we_granularity=p["gran"], mode=mode, clock_domain=p["dom"])
            m.specials += port
            adr_src = sigs[p["adr"]]
            abits = len(port.adr)
            # addresses stay below depth (class iv): depth is a power of two here
            m.comb += port.adr.eq(adr_src[:abits] if len(adr_src) >= abits else adr_src)
            if p["wr"]:
                m.comb += port.dat_w.eq(sigs[p["dat"]])
                m.comb += port.we.eq(sigs[p["we"]][:len(port.we)] if len(sigs[p["we"]]) >= len(port.we) else sigs[p["we"]])
            if port.re is not None:
                m.comb += port.re.eq(sigs[p["ren"]][0])
            o = Signal(mm["w"], name="m%dp%d_o" % (k, pn))
            m.comb += o.eq(port.dat_r)
            extra.append(o)
            ports.append(port)
        mem_objs.append((mem, ports))
    return m, sigs, mem_objs, extra

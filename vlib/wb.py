"""Wishbone agents (DESIGN.md 3.9): Python master, hardware memory slave with schedule-driven ack,
passive protocol monitor, flat byte memory scoreboard."""
from migen import Module, Signal, Memory, Replicate, Mux, If, Cat
from migen.fhdl.specials import READ_FIRST

from vlib import bench


class ByteMem:
    """reference flat byte memory"""

    def __init__(self, nbytes, init=None):
        self.b = bytearray(nbytes)
        if init:
            for i, v in enumerate(init[:nbytes]):
                self.b[i] = v

    def write(self, byte_adr, nbytes, data, sel):
        for i in range(nbytes):
            if (sel >> i) & 1 and 0 <= byte_adr + i < len(self.b):
                self.b[byte_adr + i] = (data >> (8 * i)) & 0xff

    def read(self, byte_adr, nbytes):
        r = 0
        for i in range(nbytes):
            if 0 <= byte_adr + i < len(self.b):
                r |= self.b[byte_adr + i] << (8 * i)
        return r


class WBMemSlave(Module):
    """Memory-backed Wishbone slave whose ack is `cyc & stb & go`; `go` is driven by the bench (0 latency
    possible).  While not acking it drives a recognisable garbage word on dat_r.  err_on: ack+err."""

    def __init__(self, bus, depth, init_words=None, min_latency1=False, err_only=False):
        dw = len(bus.dat_w)
        self.go = Signal()
        self.err = Signal()          # terminate with err: together with ack (default) or INSTEAD of ack (err_only; nothing is written)
        self.bus = bus
        self.depth = depth
        self.mem = Memory(dw, depth, init=list(init_words) if init_words else None)
        rp = self.mem.get_port(async_read=True)
        wp = self.mem.get_port(write_capable=True, we_granularity=8)
        self.specials += self.mem, rp, wp
        abits = max(1, (depth - 1).bit_length())
        ack = Signal()
        pend = Signal(reset=0 if min_latency1 else 1)
        if min_latency1:
            # never answer in the first cycle of a request (what a registered decoder requires)
            self.sync += pend.eq(bus.cyc & bus.stb & ~ack)
        self.comb += [
            ack.eq(bus.cyc & bus.stb & self.go & pend),
            bus.ack.eq(ack & ~(self.err & int(err_only))),
            bus.err.eq(ack & self.err),
            rp.adr.eq(bus.adr[:abits]),
            wp.adr.eq(bus.adr[:abits]),
            wp.dat_w.eq(bus.dat_w),
            wp.we.eq(bus.sel & Replicate(ack & bus.we & ~(self.err & int(err_only)), dw // 8)),
            If(ack, bus.dat_r.eq(rp.dat_r)).Else(bus.dat_r.eq(int("a5" * (dw // 8), 16))),
        ]


class WBMonitor:
    """Passive monitor on a port driven by the DUT towards a slave: stb => cyc is not required by
    LiteX's slaves, but request signals must be stable from the first cyc&stb cycle until ack."""

    def __init__(self, bus, name="slave-port", check_stability=True):
        self.bus = bus
        self.name = name
        self.sigs = [bus.cyc, bus.stb, bus.we, bus.adr, bus.sel, bus.dat_w, bus.ack, bus.err, bus.cti, bus.bte]
        self.prev = None
        self.violations = []
        self.requests = []        # (cycle, we, adr, sel, dat_w) at ack time
        self.acks_outside = 0
        self.check_stability = check_stability

    def signals(self):
        return self.sigs

    def step(self, t, v):
        cyc, stb, we, adr, sel, dat_w, ack, err, cti, bte = v
        c = t - 1
        if ack and not (cyc and stb):
            self.acks_outside += 1
        if self.prev is not None and self.check_stability:
            pw, pa, ps, pd = self.prev
            if not (cyc and stb):
                self.violations.append((c, "%s: cyc/stb withdrawn before ack" % self.name))
            elif (we, adr, sel) != (pw, pa, ps) or (we and dat_w != pd):
                self.violations.append((c, "%s: request changed before ack: we %d->%d adr %#x->%#x sel %#x->%#x dat_w %#x->%#x" %
                                        (self.name, pw, we, pa, adr, ps, sel, pd, dat_w)))
        self.prev = None
        if cyc and stb:
            if ack:
                self.requests.append((c, we, adr, sel, dat_w, cti, bte))
            else:
                self.prev = (we, adr, sel, dat_w)
        return None


class WBMaster:
    """Python Wishbone classic master.  ops: list of dicts
       {"we":0/1, "adr":word adr, "dat":int, "sel":int, "gap":idle cycles before, "hold":keep cyc asserted
        into the next request (no idle cycle possible then), "cti":, "bte":}
    Signals stay stable from the first request cycle until ack/err.  Results in .done: one entry per op:
    (op index, start cycle, ack cycle, dat_r, err)."""

    def __init__(self, bus, ops, max_wait=None):
        self.bus = bus
        self.ops = list(ops)
        self.i = 0
        self.state = "gap"
        self.gap = self.ops[0].get("gap", 0) if self.ops else 0
        self.results = []
        self.w = bench.Writer()
        self.sigs = [bus.ack, bus.err, bus.dat_r]
        self.start = None
        self.acks_outside = 0
        self.waiting = 0
        self.max_wait = max_wait
        self.aborted = []

    def signals(self):
        return self.sigs

    def finished(self):
        return self.i >= len(self.ops) and self.state != "req"

    def step(self, t, v):
        ack, err, dat_r = v
        out = []
        b = self.bus
        if self.state == "req":
            if ack or err:           # Wishbone: a cycle is terminated by ack or by err
                self.results.append((self.i, self.start, t - 1, dat_r, err))
                op = self.ops[self.i]
                self.i += 1
                self.state = "gap"
                self.gap = self.ops[self.i].get("gap", 0) if self.i < len(self.ops) else 0
                self.hold_cyc = bool(op.get("hold")) and self.i < len(self.ops)
                self.waiting = 0
            else:
                self.waiting += 1
                lim = self.ops[self.i].get("abort", self.max_wait)
                if lim is not None and self.waiting > lim:
                    # give up (used with deliberately silent slaves): withdraw the request
                    self.aborted.append((self.i, self.start, t - 1))
                    self.i += 1
                    self.state = "gap"
                    self.gap = 1
                    self.hold_cyc = False
                    self.waiting = 0
        elif ack:
            self.acks_outside += 1
        if self.state == "gap":
            if self.i < len(self.ops) and self.gap <= 0:
                op = self.ops[self.i]
                self.state = "req"
                self.start = t
                w = self.w
                w.set(out, b.cyc, 1)
                w.set(out, b.stb, 1)
                w.set(out, b.we, op["we"])
                w.set(out, b.adr, op["adr"])
                w.set(out, b.sel, op.get("sel", (1 << len(b.sel)) - 1))
                w.set(out, b.dat_w, op.get("dat", 0))
                w.set(out, b.cti, op.get("cti", 0))
                w.set(out, b.bte, op.get("bte", 0))
            else:
                self.gap -= 1
                self.w.set(out, b.stb, 0)
                self.w.set(out, b.cyc, 1 if (getattr(self, "hold_cyc", False) and self.i < len(self.ops)) else 0)
        return out

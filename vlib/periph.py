"""Helpers for C19 (serial peripherals and timers).

* csr_top(core): bench top-level = the core + a real CSRBank on a 32-bit CSR bus, with the word address of every
  register taken from the bank itself (never from naming conventions);
* BusProgram: agent that performs the CSR bus accesses of a generated program, one access per cycle at most;
* pin-level partners that must answer within the cycle are small Migen modules (DESIGN.md C19, "Partner models are
  hardware, not Python"): SPI mode-0 slave, open-drain I2C bus with a scripted slave.

Timing of a CSR bus access issued by an agent in step t (statements become visible in cycle t+1):
  write: bus.we/adr/dat_w visible in cycle t+1, storage and the `re` strobe visible in cycle t+2
         (a plain CSR's `re`/`r` are visible in cycle t+1);
  read : bus.adr visible in cycle t+1 (CSR.we strobe in that cycle), bus.dat_r valid in cycle t+2.
Never star-import from migen/litex here.
"""


def csr_top(core, others=()):
    """Module(core + CSRBank).  .addr: register name -> list of word addresses (bank order)."""
    from migen import Module
    from litex.soc.interconnect import csr_bus

    class Top(Module):
        def __init__(self):
            self.submodules.core = core
            for i, m in enumerate(others):
                setattr(self.submodules, "other%d" % i, m)
            self.bus = csr_bus.Interface(data_width=32, address_width=14)
            csrs = core.get_csrs()
            self.submodules.bank = csr_bus.CSRBank(csrs, address=0, bus=self.bus)
            self.addr = {}
            for c in csrs:
                scs = c.get_simple_csrs() if hasattr(c, "get_simple_csrs") else [c]
                self.addr[c.name] = [self.bank.simple_csrs.index(sc) for sc in scs]

    return Top()


class BusProgram:
    """writes: {step: (register name, value)}; reads: {step: register name} (re strobe, data ignored here).
    At most one access per step; the strobes are withdrawn in the following step."""

    def __init__(self, top, writes=None, reads=None):
        self.top = top
        self.writes = writes or {}
        self.reads = reads or {}
        self.active = False

    def signals(self):
        return []

    def step(self, t, vals):
        bus = self.top.bus
        w = self.writes.get(t)
        if w is not None:
            self.active = True
            return [bus.adr.eq(self.top.addr[w[0]][0]), bus.dat_w.eq(w[1]), bus.we.eq(1), bus.re.eq(0)]
        r = self.reads.get(t)
        if r is not None:
            self.active = True
            return [bus.adr.eq(self.top.addr[r][0]), bus.we.eq(0), bus.re.eq(1)]
        if self.active:
            self.active = False
            return [bus.we.eq(0), bus.re.eq(0)]
        return None


def schedule_ops(ops, t0=2):
    """ops: [[gap, ...], ...] -> {step: op} with step_i = step_{i-1} + 1 + gap_i (one bus access per cycle)."""
    out = {}
    t = t0
    for op in ops:
        t += int(op[0])
        out[t] = op
        t += 1
    return out, t


# ------------------------------------------------------------------------------------ SPI mode-0 slave partner

def spi_slave_partner(pads, width):
    """Ideal (zero output delay) mode-0 slave in the bench top-level.

    resp: word shifted out MSB first (bit width-1 first), loaded by the Python side while idle.
    MISO shows bit (width-1-n) where n = falling edges of SCLK seen while selected, *including* the one visible in
    the current cycle (SPIMaster at divider 2 samples MISO in the first cycle in which SCLK reads low)."""
    from migen import Module, Signal, If, Array

    class Partner(Module):
        def __init__(self):
            self.resp = Signal(width)
            self.sel = Signal(max=max(2, len(pads.cs_n)))      # which chip-select line this slave listens to
            self.n = n = Signal(max=2 * width + 4)
            clk_d = Signal()
            csn = Signal()
            self.comb += csn.eq(Array([pads.cs_n[i] for i in range(len(pads.cs_n))])[self.sel])
            fall = Signal()
            self.comb += fall.eq(~pads.clk & clk_d & ~csn)
            self.sync += clk_d.eq(pads.clk)
            self.sync += If(csn, n.eq(0)).Elif(fall, n.eq(n + 1))
            idx = Signal(max=2 * width + 5)
            self.comb += idx.eq(n + fall)
            shadow = Signal(width)                  # response word is taken over while the slave is deselected
            self.sync += If(csn, shadow.eq(self.resp))
            bits = Array([shadow[width - 1 - i] if i < width else 0 for i in range(2 * width + 5)])
            # garble: a slave whose output is only valid from the falling edge until one cycle after the rising edge
            # (inverted during the rest of the high phase); a mode-0 master samples at the rising edge and must not care
            self.garble = Signal()
            inv = Signal()
            self.comb += inv.eq(self.garble & pads.clk & clk_d)
            self.comb += If(~csn, pads.miso.eq(bits[idx] ^ inv)).Else(pads.miso.eq(1))

    return Partner()


# ------------------------------------------------------------------------------------ I2C open-drain bus

class MockTristate:
    """Lowering for migen Tristate in simulation (same shape as the repository's own test mock): the pin reads the
    driven value while oe=1 and `i_mock` (external pull-up / other bus devices) otherwise."""

    @staticmethod
    def lower(t):
        from migen import Module, Signal, If

        class Impl(Module):
            def __init__(self):
                if not hasattr(t, "i_mock"):
                    t.i_mock = Signal(reset=1)
                self.comb += If(t.oe, t.target.eq(t.o), t.i.eq(t.o)).Else(t.target.eq(t.i_mock), t.i.eq(t.i_mock))

        return Impl()


def i2c_slave_partner(scl, sda_mock, nslots):
    """Scripted open-drain slave: slot k = number of SCL falling edges seen so far; while in slot k the slave pulls
    SDA low iff script bit k is 1.  The drive changes in the cycle after the falling edge (SCL low phases are >= 2
    cycles for clock loads >= 1), i.e. always while SCL is low."""
    from migen import Module, Signal, If, Array

    class Slave(Module):
        def __init__(self):
            self.script = Signal(nslots)
            self.k = k = Signal(max=nslots + 1)
            scl_d = Signal(reset=1)
            self.sync += scl_d.eq(scl)
            self.sync += If(~scl & scl_d & (k < nslots - 1), k.eq(k + 1))
            bits = Array([self.script[i] for i in range(nslots)])
            self.comb += sda_mock.eq(~bits[k])

    return Slave()

"""AXI4 (full) agents built from the stream Producer/Consumer, one per channel (every AXI channel is a stream
endpoint: bus.aw / w / b / ar / r; `last` is the stream flag on w and r).

* burst_addresses / active_bytes: the AMBA AXI address rules (A3.4.1), written incrementally ("next address"),
  used by the memory slave and by the scoreboards.
* AXI4Master: program of bursts, up to K outstanding per direction, independent AW / W / AR offer schedules and
  B / R ready schedules, optional "W never ahead of AW"; operations whose byte spans overlap (one of them a write)
  are serialised so that the flat-memory scoreboard has a single admissible value.  R beats are attributed to
  the read bursts by COUNT (len+1 beats each, in order); the `last` flags are recorded, not trusted.
* AXI4MemSlave: byte-accurate memory.  Ready schedules per request channel (pre-asserted or valid dependent),
  Q outstanding bursts per direction, W beats may arrive before their AW (delimited by `last`), in-order
  responses with schedule driven latency, optional error range, garbage on idle response channels.  It also
  audits what the DUT sends as a master (legal burst parameters, W beat count == len+1).
* HoldMon: passive hold-rule monitor restricted to the fields that exist on the channel (dest never exists in
  AXI, WID does not exist in AXI4, user has width 0 here).
"""
import random

from vlib import bench
from vlib.axil import Multi, field_names

FIXED, INCR, WRAP, RESERVED = 0, 1, 2, 3
RESP_OKAY, RESP_SLVERR = 0, 2

AX_FIELDS = ["addr", "burst", "len", "size", "lock", "prot", "cache", "qos", "region", "id"]


# ------------------------------------------------------------------------------------ address rules

def burst_addresses(addr, length, size, burst):
    """byte address of every transfer of a burst (AMBA AXI A3.4.1), incremental formulation"""
    nb = 1 << size
    n = length + 1
    out = [addr]
    if burst == FIXED:
        return [addr] * n
    a = (addr // nb) * nb
    if burst == INCR:
        for _ in range(length):
            a += nb
            out.append(a)
        return out
    total = nb * n
    lo = (addr // total) * total
    for _ in range(length):
        a += nb
        if a >= lo + total:
            a = lo
        out.append(a)
    return out


def active_bytes(a, size):
    """byte addresses carried by a transfer at address a (from a up to the end of its size-aligned container)"""
    nb = 1 << size
    return range(a, ((a // nb) + 1) * nb)


def burst_span(addr, length, size, burst):
    """[lo, hi) of all bytes a burst may touch"""
    nb = 1 << size
    if burst == WRAP:
        total = nb * (length + 1)
        lo = (addr // total) * total
        return lo, lo + total
    if burst == FIXED:
        return addr, ((addr // nb) + 1) * nb
    return addr, ((addr // nb) + 1) * nb + length * nb


def legal_burst(addr, length, size, burst, bus_bytes):
    """None or a description of the AXI4 rule an address-channel request breaks"""
    nb = 1 << size
    if nb > bus_bytes:
        return "size %d exceeds the %d-byte data bus" % (size, bus_bytes)
    if burst == RESERVED:
        return "reserved burst type"
    if burst == FIXED and length > 15:
        return "FIXED burst of %d transfers" % (length + 1)
    if burst == WRAP:
        if length not in (1, 3, 7, 15):
            return "WRAP burst of %d transfers" % (length + 1)
        if addr % nb:
            return "WRAP burst with unaligned start %#x (size %d)" % (addr, size)
    if burst == INCR:
        lo, hi = burst_span(addr, length, size, burst)
        if lo // 4096 != (hi - 1) // 4096:
            return "INCR burst %#x len %d size %d crosses a 4 KB boundary" % (addr, length, size)
    return None


# ------------------------------------------------------------------------------------ small helpers

class _Fields:
    """name <-> position in a bench token for one endpoint"""

    def __init__(self, ep):
        self.pay, self.par = field_names(ep)

    def tok(self, vals, last=0, first=0):
        return (tuple(vals.get(n, 0) for n in self.pay), tuple(vals.get(n, 0) for n in self.par), first, last)

    def get(self, tok, name):
        if name in self.pay:
            return tok[0][self.pay.index(name)]
        return tok[1][self.par.index(name)]

    def asdict(self, tok):
        d = {n: v for n, v in zip(self.pay, tok[0])}
        d.update({n: v for n, v in zip(self.par, tok[1])})
        return d


class HoldMon:
    """valid, and the listed fields, must not change while valid & ~ready"""

    def __init__(self, ep, fields, name):
        self.name = name
        self.fields = list(fields)
        self.sigs = [ep.valid, ep.ready] + [getattr(ep, f) for f in self.fields]
        self.prev = None
        self.violations = []          # (cycle, text)
        self.stalled = 0

    def signals(self):
        return self.sigs

    def step(self, t, v):
        valid, ready = v[0], v[1]
        cur = tuple(v[2:])
        if self.prev is not None:
            if not valid:
                self.violations.append((t - 1, "%s: valid withdrawn before ready" % self.name))
            elif cur != self.prev:
                ch = ["%s %#x->%#x" % (f, a, b) for f, a, b in zip(self.fields, self.prev, cur) if a != b]
                self.violations.append((t - 1, "%s changed while valid & ~ready: %s" % (self.name, ", ".join(ch))))
        self.prev = None
        if valid and not ready:
            self.prev = cur
            self.stalled += 1
        return None


# ------------------------------------------------------------------------------------ master

class AXI4Master(Multi):
    """ops: list of {"we":0/1, "addr", "len", "size", "burst", "id", "beats": [[data, strb], ...] (writes)}
    sched: dict channel -> schedule spec ("aw","w","ar" offer schedules; "b","r" ready schedules)"""

    def __init__(self, bus, ops, sched, K=1, w_after_aw=True, garbage_seed=None, until=None):
        self.bus = bus
        self.ops = ops
        self.K = K
        self.nb = len(bus.w.data) // 8
        self.widx = [i for i, o in enumerate(ops) if o["we"]]
        self.ridx = [i for i, o in enumerate(ops) if not o["we"]]
        self.done = [False] * len(ops)
        self.f = {c: _Fields(getattr(bus, c)) for c in ("aw", "w", "b", "ar", "r")}
        spans = [burst_span(o["addr"], o["len"], o["size"], o["burst"]) for o in ops]
        self.deps = []
        for i, o in enumerate(ops):
            d = []
            for j in range(i):
                if (o["we"] or ops[j]["we"]) and spans[i][0] < spans[j][1] and spans[j][0] < spans[i][1]:
                    d.append(j)
            self.deps.append(d)
        self.w_done = 0
        self.r_done = 0

        def g(k):
            return None if garbage_seed is None else garbage_seed + k

        def wgate(j):
            p = self.widx[j]
            return j - self.w_done < K and all(self.done[d] for d in self.deps[p])

        def rgate(j):
            p = self.ridx[j]
            return j - self.r_done < K and all(self.done[d] for d in self.deps[p])

        def wdata_gate(j):
            wn = self.w_owner[j]
            if not w_after_aw:
                return wgate(wn)
            return self.aw.idx > wn or (self.aw.idx == wn and self.aw.offering)

        self.aw = bench.Producer(bus.aw, [self.f["aw"].tok(ops[p]) for p in self.widx], sched["aw"], garbage_seed=g(1),
                                 until=until, gate=wgate)
        wtoks = []
        self.w_owner = []
        self.w_lastbeat = []          # index into the W token stream of the final beat of write n
        for n, p in enumerate(self.widx):
            beats = ops[p]["beats"]
            for k, (d, s) in enumerate(beats):
                wtoks.append(self.f["w"].tok({"data": d, "strb": s}, last=int(k == len(beats) - 1)))
                self.w_owner.append(n)
            self.w_lastbeat.append(len(wtoks) - 1)
        self.w = bench.Producer(bus.w, wtoks, sched["w"], garbage_seed=g(2), until=until, gate=wdata_gate)
        self.ar = bench.Producer(bus.ar, [self.f["ar"].tok(ops[p]) for p in self.ridx], sched["ar"], garbage_seed=g(3),
                                 until=until, gate=rgate)
        self.b = bench.Consumer(bus.b, sched["b"], until=until, check_hold=False)
        self.r = bench.Consumer(bus.r, sched["r"], until=until, check_hold=False)
        self.mon_b = HoldMon(bus.b, ["resp", "id"], "B")
        self.mon_r = HoldMon(bus.r, ["resp", "data", "id", "last"], "R")
        self.bres = []                # per write, in order: (cycle, resp, id)
        self.rres = [[] for _ in self.ridx]   # per read: [(cycle, data, resp, id, last)]
        self.extra_r = []             # R beats beyond everything requested
        self.extra_b = []
        self._nb = 0
        self._nr = 0
        self._rcur = 0
        Multi.__init__(self, [self.b, self.r, self.mon_b, self.mon_r, self.aw, self.w, self.ar])

    def step(self, t, vals):
        out = Multi.step(self, t, vals)
        fb, fr = self.f["b"], self.f["r"]
        while self._nb < len(self.b.got):
            c, tok = self.b.got[self._nb]
            rec = (c, fb.get(tok, "resp"), fb.get(tok, "id"))
            if self._nb < len(self.widx):
                self.bres.append(rec)
                self.done[self.widx[self._nb]] = True
                self.w_done += 1
            else:
                self.extra_b.append(rec)
            self._nb += 1
        while self._nr < len(self.r.got):
            c, tok = self.r.got[self._nr]
            self._nr += 1
            rec = (c, fr.get(tok, "data"), fr.get(tok, "resp"), fr.get(tok, "id"), tok[3])
            if self._rcur >= len(self.ridx):
                self.extra_r.append(rec)
                continue
            p = self.ridx[self._rcur]
            self.rres[self._rcur].append(rec)
            if len(self.rres[self._rcur]) == self.ops[p]["len"] + 1:
                self.done[p] = True
                self.r_done += 1
                self._rcur += 1
        return out

    def finished(self):
        return all(self.done)

    def hold_violations(self):
        return self.mon_b.violations + self.mon_r.violations


# ------------------------------------------------------------------------------------ memory slave

class AXI4MemSlave(Multi):
    """sched: "aw","w","ar" ready schedules, "b","r" response offer schedules.  mem: bytearray-like window that
    starts at `base`.  err(addr) -> True: the whole burst is answered SLVERR and has no effect."""

    def __init__(self, bus, mem, sched, Q=2, wait_valid=False, err=None, base=0, garbage_b=None, garbage_r=None,
                 until=None, w_needs_aw=False, pad_seed=0):
        self.bus = bus
        self.mem = mem
        self.base = base
        self.nb = len(bus.w.data) // 8
        self.err = err or (lambda addr: False)
        self.Q = Q
        self.f = {c: _Fields(getattr(bus, c)) for c in ("aw", "w", "b", "ar", "r")}
        self.pad = random.Random(pad_seed)
        self.w_bursts = []            # complete W bursts (delimited by last): [(cycle of last beat, [(data, strb)])]
        self._wcur = []
        self._nwb = 0                 # W beats looked at
        self._naw = 0                 # writes performed
        self._nar = 0
        self.reads_done = 0
        self.writes = []              # per write burst: {"aw": dict, "nbeats": n, "bytes": [(addr, value)], "cycle": c}
        self.reads = []               # per read burst: {"ar": dict, "cycle": c}
        self.audit = []               # protocol errors of the DUT acting as a master: text
        self.aw = bench.Consumer(bus.aw, sched["aw"], until=until, check_hold=False, wait_valid=wait_valid,
                                 gate=lambda: len(self.aw.got) - len(self.b.sent) < Q)
        if w_needs_aw:
            def wg():
                # complete W bursts so far, including a final beat taken in the cycle that just ended
                n = len(self.w_bursts)
                if len(self.w.got) > self._nwb and self.w.got[-1][1][3]:
                    n += 1
                return n < len(self.aw.got)
        else:
            wg = None
        self.w = bench.Consumer(bus.w, sched["w"], until=until, check_hold=False, wait_valid=wait_valid, gate=wg)
        self.ar = bench.Consumer(bus.ar, sched["ar"], until=until, check_hold=False, wait_valid=wait_valid,
                                 gate=lambda: len(self.ar.got) - self.reads_done < Q)
        self.b = bench.Producer(bus.b, [], sched["b"], garbage_seed=garbage_b, until=until)
        self.r = bench.Producer(bus.r, [], sched["r"], garbage_seed=garbage_r, until=until)
        self._r_last_idx = []         # index in the R token stream of the final beat of every read burst
        self.mon_aw = HoldMon(bus.aw, AX_FIELDS, "AW (towards the slave)")
        self.mon_w = HoldMon(bus.w, ["data", "strb", "last"], "W (towards the slave)")
        self.mon_ar = HoldMon(bus.ar, AX_FIELDS, "AR (towards the slave)")
        self._front = [self.aw, self.w, self.ar, self.mon_aw, self.mon_w, self.mon_ar]
        Multi.__init__(self, self._front + [self.b, self.r])

    def _ax(self, f, tok):
        d = f.asdict(tok)
        return {k: d[k] for k in AX_FIELDS}

    def step(self, t, vals):
        out = []
        pos = 0
        nfront = len(self._front)
        for a, n in zip(self.agents[:nfront], self.sizes[:nfront]):
            w = a.step(t, vals[pos:pos + n])
            pos += n
            if w:
                out += w
        fw = self.f["w"]
        # W beats -> bursts, delimited by last
        while self._nwb < len(self.w.got):
            c, tok = self.w.got[self._nwb]
            self._nwb += 1
            self._wcur.append((fw.get(tok, "data"), fw.get(tok, "strb")))
            if tok[3]:
                self.w_bursts.append((c, self._wcur))
                self._wcur = []
        # reads-done accounting
        while self.reads_done < len(self._r_last_idx) and self.r.idx > self._r_last_idx[self.reads_done]:
            self.reads_done += 1
        # perform writes for which both AW and all data are here
        while self._naw < len(self.aw.got) and self._naw < len(self.w_bursts):
            ca, ta = self.aw.got[self._naw]
            cw, beats = self.w_bursts[self._naw]
            self._naw += 1
            ax = self._ax(self.f["aw"], ta)
            msg = legal_burst(ax["addr"], ax["len"], ax["size"], ax["burst"], self.nb)
            if msg:
                self.audit.append("AW #%d: %s" % (self._naw - 1, msg))
            if len(beats) != ax["len"] + 1:
                self.audit.append("write #%d: AW len %d announces %d beats, W last came on beat %d" %
                                  (self._naw - 1, ax["len"], ax["len"] + 1, len(beats)))
            is_err = bool(self.err(ax["addr"]))
            seq = []
            if not msg:
                addrs = burst_addresses(ax["addr"], ax["len"], ax["size"], ax["burst"])
                for a, (data, strb) in zip(addrs, beats):
                    for x in active_bytes(a, ax["size"]):
                        lane = x % self.nb
                        if (strb >> lane) & 1:
                            v = (data >> (8 * lane)) & 0xff
                            seq.append((x, v))
                            off = x - self.base
                            if not is_err and 0 <= off < len(self.mem):
                                self.mem[off] = v
            self.writes.append({"aw": ax, "nbeats": len(beats), "bytes": seq, "cycle": max(ca, cw), "err": is_err})
            self.b.tokens.append(self.f["b"].tok({"resp": RESP_SLVERR if is_err else RESP_OKAY, "id": ax["id"]}))
        # reads
        while self._nar < len(self.ar.got):
            ca, ta = self.ar.got[self._nar]
            self._nar += 1
            ax = self._ax(self.f["ar"], ta)
            msg = legal_burst(ax["addr"], ax["len"], ax["size"], ax["burst"], self.nb)
            if msg:
                self.audit.append("AR #%d: %s" % (self._nar - 1, msg))
            is_err = bool(self.err(ax["addr"]))
            self.reads.append({"ar": ax, "cycle": ca, "err": is_err})
            if msg:
                addrs = [ax["addr"]] * (ax["len"] + 1)
            else:
                addrs = burst_addresses(ax["addr"], ax["len"], ax["size"], ax["burst"])
            for k, a in enumerate(addrs):
                data = self.pad.getrandbits(8 * self.nb)          # lanes outside the transfer carry junk
                if not msg:
                    for x in active_bytes(a, ax["size"]):
                        lane = x % self.nb
                        off = x - self.base
                        v = self.mem[off] if (0 <= off < len(self.mem) and not is_err) else 0
                        data = (data & ~(0xff << (8 * lane))) | (v << (8 * lane))
                self.r.tokens.append(self.f["r"].tok({"resp": RESP_SLVERR if is_err else RESP_OKAY, "data": data, "id": ax["id"]},
                                                     last=int(k == len(addrs) - 1)))
            self._r_last_idx.append(len(self.r.tokens) - 1)
        for a, n in zip(self.agents[nfront:], self.sizes[nfront:]):
            w = a.step(t, vals[pos:pos + n])
            pos += n
            if w:
                out += w
        return out

    def hold_violations(self):
        return self.mon_aw.violations + self.mon_w.violations + self.mon_ar.violations

    def state(self):
        return "slave saw %d AW, %d W beats (%d complete bursts, %d beats pending), %d AR; sent %d B, %d/%d R beats" % (
            len(self.aw.got), len(self.w.got), len(self.w_bursts), len(self._wcur), len(self.ar.got),
            len(self.b.sent), len(self.r.sent), len(self.r.tokens))

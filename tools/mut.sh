#!/bin/bash
# usage: tools/mut.sh <patch-file> <Cxx> [tier]   -- run a check against a scratch worktree of /repo with the patch applied
set -u
PATCH=$(realpath "$1"); PROP=$2; TIER=${3:-quick}
WT=/tmp/wt_mut_$$
git -C /repo worktree add -q --detach $WT HEAD || exit 3
if ! git -C $WT apply "$PATCH"; then echo "PATCH DOES NOT APPLY"; git -C /repo worktree remove --force $WT; exit 3; fi
cd /verif
VERIF_EVIDENCE_DIR=/tmp/ev_scratch VERIF_FOUND_DIR=/tmp/found_scratch VERIF_REPO=$WT timeout 3000 /venv/bin/python run.py $PROP --tier $TIER 2>&1 | grep -v "^  \|^DETAIL" | tail -6
rc=${PIPESTATUS[0]}
git -C /repo worktree remove --force $WT
git -C /repo worktree prune
echo "mutant rc=$rc"
exit $rc

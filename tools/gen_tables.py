#!/venv/bin/python
"""Regenerates the generated appendix of DESIGN.md (between the GENERATED markers) from known_findings.json and seeded/*/meta.json."""
import json, os, glob, subprocess
HERE = os.path.dirname(os.path.dirname(os.path.abspath(__file__)))
kf = json.load(open(os.path.join(HERE, "known_findings.json")))["findings"]
out = []
out.append("### B.1 Repairs made to enjoy-digital/litex (`fix:` commits in /repo)\n")
out.append("| Property | Commit | What failed | Witness (must pass) |")
out.append("|---|---|---|---|")
seen = set()
for e in kf:
    if e["status"] == "fixed":
        out.append("| %s | %s | %s | `%s` |" % (e["property"], e.get("commit", ""), e["summary"].replace("|", "\\|"), e["witness"]))
out.append("")
out.append("### B.2 Known findings (genuine defects recorded, not repaired)\n")
out.append("| Property | Key | What fails | Witness (must still fail) |")
out.append("|---|---|---|---|")
rows = {}
for e in kf:
    if e["status"] == "known":
        rows.setdefault((e["property"], e["key"]), [e["summary"], []])[1].append(e["witness"])
for (prop, key), (summ, wits) in rows.items():
    out.append("| %s | `%s` | %s | %s |" % (prop, key, summ[:330].replace("|", "\\|"), ", ".join("`%s`" % w for w in wits)))
out.append("")
out.append("### B.3 Seeded changes (written by independent sub-agents from the property text only) and which check catches them\n")
out.append("| Seed | Breaks | Summary | Needs | Confirmed (demo fails with / passes without, suite green) | Caught by |")
out.append("|---|---|---|---|---|---|")
for d in sorted(glob.glob(os.path.join(HERE, "seeded", "*"))):
    mp = os.path.join(d, "meta.json")
    if not os.path.exists(mp):
        continue
    m = json.load(open(mp))
    out.append("| %s | %s | %s | %s | %s | %s%s |" % (os.path.basename(d), m.get("property"), str(m.get("summary", ""))[:260].replace("|", "\\|").replace("\n", " "),
               str(m.get("needs", ""))[:220].replace("|", "\\|").replace("\n", " "), "yes" if m.get("confirmed") else "NO",
               ", ".join(m.get("detected_by") or []) or "**missed**", (" (" + m["note"] + ")") if m.get("note") else ""))
out.append("")
text = "\n".join(out)
p = os.path.join(HERE, "DESIGN.md")
s = open(p).read()
a, b = "<!-- GENERATED:BEGIN -->", "<!-- GENERATED:END -->"
if a in s:
    s = s[:s.index(a) + len(a)] + "\n" + text + "\n" + s[s.index(b):]
else:
    s += "\n\n## Appendix B - generated tables (tools/gen_tables.py)\n\n" + a + "\n" + text + "\n" + b + "\n"
open(p, "w").write(s)
print("tables written:", sum(1 for e in kf if e["status"] == "fixed"), "fixed,", len(rows), "known")

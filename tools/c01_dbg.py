import sys, json
sys.path.insert(0, '/verif')
from vlib import env; env.install()
from checks import C01
from vlib import fhdlgen
d = json.load(open(sys.argv[1]))
case = d['case']
print(d['detail'][:300])
def go():
    from litex.gen.fhdl.verilog import convert
    m1, sigs1, mems1, extra1 = fhdlgen.build(case)
    ios = set(s for s, dd in zip(sigs1, case["sigs"]) if dd["role"] == "in")
    for dn in case["doms"]:
        cd = getattr(m1, "cd_" + dn); ios |= {cd.clk, cd.rst}
    out = convert(m1, ios=ios, name="top", regular_comb=case.get("regular_comb", True))
    t = out.main_source
    i = t.index("// Signals")
    print(t[i-100:])
    print("SIGS", [(s['name'], s['w'], s['signed'], s['role'], s.get('reset')) for s in case['sigs']])
    print("MEMS", case['mems'])
    print("STIM", case['stim'], case['rst'])
env.isolated(go)

def go2():
    import litex.gen.sim.core as lsim
    m2, sigs2, mems2, extra2 = fhdlgen.build(case)
    idx_in = [i for i, s in enumerate(case["sigs"]) if s["role"] == "in"]
    def gen():
        for k in range(min(4, len(case['stim']))):
            vals = yield list(sigs2)
            print("FHDL before edge", k, vals)
            for j, i in enumerate(idx_in):
                yield sigs2[i].eq(case["stim"][k][j])
            yield
    lsim.run_simulation(m2, [gen()])
env.isolated(go2)

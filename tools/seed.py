#!/venv/bin/python
"""seed.py <seed-src-dir> <seed-id> <Cxx>[,Cyy] [--no-suite]

Confirms a seeded change in a scratch worktree of /repo (patch applies, demonstration passes without
and fails with the patch, the repository's pinned suite still passes with it), runs the listed
checks (quick tier) against it and stores everything under /verif/seeded/<seed-id>/."""
import json
import os
import shutil
import subprocess
import sys
import tempfile

VERIF = os.path.dirname(os.path.dirname(os.path.abspath(__file__)))


def sh(cmd, **kw):
    return subprocess.run(cmd, shell=True, stdout=subprocess.PIPE, stderr=subprocess.STDOUT, text=True, **kw)


def main():
    src, sid, props = sys.argv[1], sys.argv[2], sys.argv[3].split(",")
    suite = "--no-suite" not in sys.argv
    dst = os.path.join(VERIF, "seeded", sid)
    os.makedirs(dst, exist_ok=True)
    for f in ("patch.diff", "demo.py", "meta.json"):
        if os.path.abspath(src) != os.path.abspath(dst):
            shutil.copy(os.path.join(src, f), os.path.join(dst, f))
    # demonstrations written in a seeder's own worktree sometimes assert that very path: make the stored copy location independent
    import re
    dp = os.path.join(dst, "demo.py")
    dsrc = open(dp).read()
    dnew = re.sub(r'litex\.__file__\.startswith\((["\'])/tmp/s[cd]_C\d\d/?\1\)', 'litex.__file__.startswith(__import__("os").environ.get("PYTHONPATH", "/").split(":")[0])', dsrc)
    if dnew != dsrc:
        open(dp, "w").write(dnew)
    meta = json.load(open(os.path.join(dst, "meta.json")))
    wt = tempfile.mkdtemp(prefix="wt_seed_", dir="/tmp")
    os.rmdir(wt)
    sh("git -C /repo worktree add -q --detach %s HEAD" % wt)
    res = {}
    try:
        envp = "cd %s && PYTHONPATH=%s PYTHONDONTWRITEBYTECODE=1 timeout 900 /venv/bin/python %s/demo.py" % (wt, wt, dst)
        r0 = sh(envp)
        res["demo_without_patch_rc"] = r0.returncode
        a = sh("git -C %s apply %s/patch.diff" % (wt, dst))
        res["patch_applies"] = a.returncode == 0
        if a.returncode:
            res["apply_output"] = a.stdout[-500:]
        else:
            r1 = sh(envp)
            res["demo_with_patch_rc"] = r1.returncode
            res["demo_with_patch_tail"] = r1.stdout[-600:]
            if suite:
                t = sh("VERIF_REPO=%s /venv/bin/python %s/tools/repo_tests.py" % (wt, VERIF))
                res["suite_with_patch"] = t.stdout.strip().splitlines()[-3:]
                res["suite_ok"] = t.returncode == 0
            det = {}
            for p in props:
                c = sh("cd %s && VERIF_EVIDENCE_DIR=/tmp/ev_scratch VERIF_FOUND_DIR=/tmp/found_scratch VERIF_REPO=%s timeout 3000 /venv/bin/python run.py %s --tier quick" % (VERIF, wt, p))
                lines = [l for l in c.stdout.splitlines() if l.startswith("VIOLATION") or l.startswith("DETAIL")]
                det[p] = {"rc": c.returncode, "violations": len([l for l in lines if l.startswith("VIOLATION")]),
                          "first_detail": next((l[:400] for l in lines if l.startswith("DETAIL")), None)}
            res["checks"] = det
    finally:
        sh("git -C /repo worktree remove --force %s" % wt)
        sh("git -C /repo worktree prune")
    meta["verif"] = res
    meta["confirmed"] = bool(res.get("patch_applies") and res.get("demo_without_patch_rc") == 0 and
                             res.get("demo_with_patch_rc", 0) != 0 and res.get("suite_ok", not suite))
    meta["detected_by"] = sorted(p for p, d in res.get("checks", {}).items() if d["rc"] == 1)
    json.dump(meta, open(os.path.join(dst, "meta.json"), "w"), indent=1)
    print(sid, "confirmed=%s" % meta["confirmed"], "detected_by=%s" % meta["detected_by"],
          {k: v for k, v in res.items() if k not in ("checks", "demo_with_patch_tail")})
    for p, d in res.get("checks", {}).items():
        print("   ", p, d)


if __name__ == "__main__":
    main()

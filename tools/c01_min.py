"""greedy minimiser for C01 replay cases: removes statements / stimuli while the disagreement persists"""
import sys, json, copy
sys.path.insert(0, '/verif')
from vlib import env; env.install()
from checks import C01
d = json.load(open(sys.argv[1])); case = d['case']; tier2 = d['sub'] == 'tier2'
def fails(c):
    try:
        v = env.isolated(C01.run_program, c, tier2)
    except Exception as e:
        return False
    return not v['ok']
assert fails(case)
def stmt_lists(c):
    out = []
    def walk(lst):
        out.append(lst)
        for s in lst:
            if s[0] == 'if':
                walk(s[2]); [walk(b) for _, b in s[3]]; walk(s[4])
            elif s[0] == 'case':
                [walk(b) for _, b in s[2]]
                if s[3] is not None: walk(s[3])
    for blk in c['body']['comb']: walk(blk)
    for dn, blks in c['body']['sync'].items():
        for blk in blks: walk(blk)
    return out
changed = True
while changed:
    changed = False
    # drop trailing stimuli
    while len(case['stim']) > 1:
        c2 = copy.deepcopy(case); c2['stim'].pop(); c2['rst'].pop()
        if fails(c2): case = c2; changed = True
        else: break
    n = len(stmt_lists(case))
    for li in range(n):
        i = 0
        while True:
            lists = stmt_lists(case)
            if li >= len(lists) or i >= len(lists[li]): break
            c2 = copy.deepcopy(case)
            l2 = stmt_lists(c2)[li]
            s = l2[i]
            del l2[i]
            if fails(c2): case = c2; changed = True; continue
            # replace if/case by one of its bodies
            done = False
            if s[0] in ('if', 'case'):
                bodies = [s[2]] + [b for _, b in s[3]] + [s[4]] if s[0] == 'if' else [b for _, b in s[2]] + ([s[3]] if s[3] else [])
                for b in bodies:
                    c3 = copy.deepcopy(case); l3 = stmt_lists(c3)[li]; l3[i:i+1] = copy.deepcopy(b)
                    if fails(c3): case = c3; changed = True; done = True; break
            if not done: i += 1
    if case['mems']:
        c2 = copy.deepcopy(case); c2['mems'] = []
        if fails(c2): case = c2; changed = True
d['case'] = case
json.dump(d, open(sys.argv[1] + ".min.json", "w"), indent=1)
print("minimised ->", sys.argv[1] + ".min.json")

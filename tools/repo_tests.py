#!/venv/bin/python
"""Run the repository's pinned suite (guard off) and compare with /root/.vp/BASELINE.json stable_pass."""
import json, subprocess, sys, os, tempfile
import xml.etree.ElementTree as ET
base = json.load(open("/root/.vp/BASELINE.json"))
out = tempfile.mkdtemp(prefix="repo_tests_", dir="/tmp")
xml = os.path.join(out, "junit.xml")
env = dict(os.environ)
env.pop("LITEX_VERIF", None)
for attempt in range(3):
    p = subprocess.run(["/venv/bin/python", "-m", "pytest", "-q", "-p", "no:cacheprovider", "--timeout=900", "-x" if "-x" in sys.argv else "-q",
                        "--continue-on-collection-errors", "--junitxml=" + xml] + [a for a in sys.argv[1:] if a != "-x"],
                       cwd=os.environ.get("VERIF_REPO", "/repo"), env=env, stdout=subprocess.PIPE, stderr=subprocess.STDOUT, text=True)
    if os.path.exists(xml):
        break
    print("pytest wrote no report (rc=%s), attempt %d; output tail:\n%s" % (p.returncode, attempt, p.stdout[-1500:]))
passed = set()
for tc in ET.parse(xml).getroot().iter("testcase"):
    if not any(c.tag in ("failure", "error", "skipped") for c in tc):
        passed.add("%s::%s" % (tc.get("classname"), tc.get("name")))
missing = [t for t in base["stable_pass"] if t not in passed]
print("passed=%d baseline=%d missing=%d" % (len(passed), len(base["stable_pass"]), len(missing)))
for m in missing:
    print("MISSING", m)
import shutil; shutil.rmtree(out, ignore_errors=True)
sys.exit(1 if missing else 0)

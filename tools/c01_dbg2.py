import sys, json
sys.path.insert(0, '/verif')
from vlib import env; env.install()
from vlib import fhdlgen, vsim
d = json.load(open(sys.argv[1])); case = d['case']
print(d['detail'][:200])
import re
K = int(re.search(r"instant (-?\d+)", d['detail']).group(1))
def go():
    from litex.gen.fhdl.verilog import convert
    import litex.gen.sim.core as lsim
    m1, sigs1, mems1, extra1 = fhdlgen.build(case)
    ios = set(s for s, dd in zip(sigs1, case["sigs"]) if dd["role"] == "in")
    for dn in case["doms"]:
        cd = getattr(m1, "cd_" + dn); ios |= {cd.clk, cd.rst}
    out = convert(m1, ios=ios, name="top", regular_comb=case.get("regular_comb", True))
    t = out.main_source
    print(t[t.index("// Signals")-100:t.index("// Specialized")])
    vm = vsim.Module(t, dict(out.data_files), track_div=True)
    names = []
    for s in sigs1:
        try: names.append(out.ns.get_name(s))
        except ValueError: names.append(None)
    m2, sigs2, mems2, extra2 = fhdlgen.build(case)
    idx_in = [i for i, s in enumerate(case["sigs"]) if s["role"] == "in"]
    recs = []
    def gen():
        for k in range(len(case['stim'])+1):
            vals = yield list(sigs2)
            recs.append(vals)
            if k < len(case['stim']):
                for j, i in enumerate(idx_in):
                    yield sigs2[i].eq(case["stim"][k][j])
                for dn in case["doms"]:
                    yield getattr(m2, "cd_"+dn).rst.eq(int(case['rst'][k]))
            yield
    lsim.run_simulation(m2, [gen()])
    print("names", names)
    print("sigs", [(s['name'], s['w'], s['signed'], s['role']) for s in case['sigs']])
    print("instant -1: FHDL", recs[0], "V", [vm.v.get(n) for n in names])
    for k in range(min(K+1, len(case['stim']))):
        inputs = {names[i]: case["stim"][k][j] for j, i in enumerate(idx_in) if names[i] in vm.v}
        for dn in case["doms"]:
            inputs[out.ns.get_name(getattr(m1, "cd_"+dn).rst)] = int(case['rst'][k])
        vm.step(rising={out.ns.get_name(getattr(m1, "cd_"+dn).clk) for dn in case["doms"]}, inputs=inputs)
        if k >= K-2:
            print("instant", k, "rst", case['rst'][k], ": FHDL", recs[k+1], "V", [vm.v.get(n) for n in names], "div", [n for n in names if vm.div.get(n)])
env.isolated(go)

#!/venv/bin/python
"""mkmut.py <out.diff> <relative file> <old> <new> [<old2> <new2> ...]: make a patch against /repo HEAD in a scratch worktree."""
import sys, subprocess, os, tempfile, shutil
out, rel = sys.argv[1], sys.argv[2]
pairs = sys.argv[3:]
wt = tempfile.mkdtemp(prefix="wt_gen_", dir="/tmp")
os.rmdir(wt)
subprocess.check_call(["git", "-C", "/repo", "worktree", "add", "-q", "--detach", wt, "HEAD"])
try:
    p = os.path.join(wt, rel)
    s = open(p).read()
    for i in range(0, len(pairs), 2):
        old, new = pairs[i].encode().decode("unicode_escape"), pairs[i + 1].encode().decode("unicode_escape")
        if s.count(old) != 1:
            print("pattern occurs %d times: %r" % (s.count(old), old)); sys.exit(2)
        s = s.replace(old, new)
    open(p, "w").write(s)
    d = subprocess.check_output(["git", "-C", wt, "diff"])
    open(out, "wb").write(d)
    print("wrote", out, len(d), "bytes")
finally:
    subprocess.call(["git", "-C", "/repo", "worktree", "remove", "--force", wt])
    subprocess.call(["git", "-C", "/repo", "worktree", "prune"])

#!/venv/bin/python
"""Regenerates MANIFEST.json from the table below (kept valid at all times)."""
import json
import os

HERE = os.path.dirname(os.path.dirname(os.path.abspath(__file__)))

# property -> (category, technique, level text, level note, design ref)
CHECKS = {
    "C02": ("exploration",
            "property-based testing (Hypothesis): invariant oracle (injective / legal / reproducible names) over generated naming scenarios and generated module trees; exhaustive keyword enumeration",
            "Generated-input search: thousands of generated signal sets (hierarchical back-traces, related chains, overrides that look like generated names, keywords, request orders) and generated module trees (written out as Python source, elaborated twice, converted) are checked for name injectivity, legality against an independently typed IEEE 1800-2017 keyword list and text reproducibility; all 248 keywords are enumerated exhaustively. Absence of a counter-example in the generated space, not a proof.",
            "Trusted: Hypothesis, Migen (site-packages), the harness tracer shim, the typed keyword list, the declaration regexes that parse the emitted text.",
            "DESIGN.md section 4 / C02"),
    "C13": ("exploration",
            "model-based property testing (Hypothesis): generated API call histories against the real handler objects, invariant oracle after every successful step, decoders evaluated on boundary and generated addresses",
            "Generated-input search over histories of add_region/alloc/add_slave/add_master/finalize calls (fixed, unaligned, non-power-of-two, top-of-space, IO/cached/linker regions; 32/64-bit spaces), CSR/IRQ location requests with boundary numbers and reuse, and platform request/lookup/extension sequences. After every successful request the invariants of the property (pairwise disjoint power-of-two windows, allocated regions inside space/IO region and aligned, exact decoder accept sets, unique names/locations in range, resources granted once) are evaluated on the real objects; rejected requests end the design and the successful prefix is replayed. Exploration, not proof.",
            "Trusted: Hypothesis, Migen's expression Evaluator (used to evaluate decoder predicates), the harness' window arithmetic. Preconditions: unique (name, number) platform descriptions; alloc scans longer than 2^17 steps are not executed.",
            "DESIGN.md section 4 / C13"),
    "C03": ("exploration",
            "property-based testing (Hypothesis) + exhaustive schedule enumeration: per-element token-sequence reference models over generated parameters, token lists and valid/ready schedules on the Python simulator",
            "Each case builds a fresh element (15 kinds incl. compositions, gearbox, gate/mux/demux) at generated parameters, drives it with a generated token list, producer schedule and consumer schedule (tagged styles: periodic, run-length, iid, prefix; garbage on idle payloads), feeds the tokens handshaken at the sink to an independent reference model and compares with the tokens handshaken at the source after a drain phase. 16 element configurations are additionally run under ALL producer x consumer schedules of length 6 (thorough: 8). Constructors are checked not to modify their arguments. Exploration: every interleaving up to the enumerated depth, sampled beyond.",
            "Trusted: Migen's simulator (site-packages) as FHDL semantics, the harness agents and reference models (validated against the unchanged code and against mutants). Params constant inside an up-converted group; slots beyond valid_token_count unconstrained.",
            "DESIGN.md section 4 / C03"),
    "C04": ("exploration",
            "property-based testing (Hypothesis): hold-rule monitor and bounded-progress invariant over generated schedules with long early stalls; cooperative phase entered from generated prefixes",
            "Same element table as C03. Oracle 1: a monitor on the source endpoint checks valid(t)&~ready(t) => valid(t+1) and identical payload/param/first/last. Oracle 2: after the generated prefix the producer gets an endless token supply and the consumer is always ready; every window of B cycles (B from depth/ratio/latency) must contain a handshake on sink or source. Thorough adds the hold rule under all schedules of length 8 for 16 configurations. Bounded liveness from reached states only - a deadlock state no generated prefix reaches is not found.",
            "Trusted: Migen's simulator, harness agents/monitors. Control inputs (sel/enable) held constant. Progress bound B is generous (healthy elements show a handshake every cycle).",
            "DESIGN.md section 4 / C04"),
    "C07": ("exploration",
            "property-based testing (Hypothesis): reference flat byte memory + protocol monitors over generated read/write/burst histories, geometries and slave ack schedules",
            "Each case builds a fresh adapter (down/up/auto converter, write-back cache incl. wider/narrower slave and reverse, remapper, CSR bridge, SRAM classic and B4 bursts, four chains) in front of a hardware memory slave whose ack is schedule driven (0-latency capable), runs a generated history of 5..60 operations (partial/empty selects, gaps, held cyc, colliding cache sets, wrap/incrementing/constant bursts with master wait states) and compares every read on its selected lanes, plus a final read-back of the whole window, with a flat byte memory; exactly-one-termination, slave-side request stability, remapped addresses against the documented formula and CSR-side strobes are checked as well.",
            "Trusted: Migen's simulator, harness master/slave/monitor, the byte-memory model. Known finding excluded by construction and replayed: SRAM wrap burst longer than its wrap length. The cache starts cold over non-zero slave content (valid bits added by repair ee4434a, witness replayed). CSR bridge driven with full or empty selects only.",
            "DESIGN.md section 4 / C07"),
    "C17": ("exploration",
            "exhaustive table extraction by simulation + plain-Python invariants over all symbols/pairs; property-based testing (Hypothesis) of the multi-word and stream wrappers against the extracted table model",
            "The (running disparity, symbol) -> (code, disparity') table of the real SingleEncoder and the code -> (d, k, invalid) table of the real Decoder are extracted by simulation for all 268 symbols x 2 disparities and all 1024 code words, msb- and lsb-first, and checked exhaustively: round trip with control flag, disparity rule (hence |RD| <= 1), invalid flag for impossible ones-counts, run length <= 5 and comma freedom over ALL ordered symbol pairs from both disparities (a <=10-bit window never spans three symbols). Generated part: Encoder(nwords 1..4) under ce schedules and StreamEncoder/StreamDecoder under valid/ready schedules must follow the table model chained through the disparity and satisfy the hold rule.",
            "Trusted: Migen's simulator, the list of 12 control symbols, serial bit order 'a' first.",
            "DESIGN.md section 4 / C17"),
    "C18": ("fault_enumeration",
            "exhaustive enumeration of data words x 0/1/2-bit flip patterns through the real encoder/decoder (small k), generated words and flip pairs with a linearity cross-check (large k)",
            "Real ECCEncoder -> XOR flip mask -> real ECCDecoder in the simulator, one settle per vector. k = 1..8 (thorough 1..12): every data word x every single and double flip position incl. the overall parity bit, plus the disabled pass-through. k in 9..128 (quick: 15 widths around the check-bit boundaries; thorough: all): zero/all-ones/generated words x all single flips x generated double flips (always incl. parity-bit and adjacent pairs), and a check that flags/correction depend on the flip pattern only and that the encoder is linear, which justifies reading sampled words as representative.",
            "Trusted: Migen's simulator; textbook Hamming layout for the disabled pass-through oracle. Flags while disabled are unspecified and not asserted.",
            "DESIGN.md section 4 / C18"),
    "C06": ("exploration",
            "property-based testing (Hypothesis) + exhaustive 2x2 enumeration: per-cycle routing/ownership invariants evaluated from port traces (requests tagged per master) and a per-slave memory scoreboard",
            "Generated topologies (Arbiter, Decoder, InterconnectShared, Crossbar, point-to-point; 1..3 x 1..3), disjoint maps decoded by the real SoCRegion.decoder, registered/unregistered decode, per-master request programs (mapped and hole addresses, gaps, held cyc, simultaneous starts, aborts) and per-slave ack schedules (0-latency capable). From the per-cycle traces: at most one slave sees cyc on a shared bus, a slave-side request equals exactly one master's request inside that slave's window, holes reach nobody, a bound master keeps the port while it holds cyc, ack/err/dat_r reach only the bound master, exactly one termination per request, per-(master,slave) ack counts agree, round-robin fairness bound, scoreboard. 2x2 shared/crossbar: all start offsets (0..5)^2 x held cyc x targets x registered x 3 latencies exhaustively.",
            "Trusted: Migen's simulator, harness agents. Registered decode: slave latency >= 1. No timeout (C11).",
            "DESIGN.md section 4 / C06"),
    "C12": ("exploration",
            "property-based testing (Hypothesis): cycle-accurate reference register file (written from the docstrings) compared in every cycle with the real CSRBank over generated register sets and bus/device histories",
            "Generated register sets (raw CSRs, storages with/without atomic write and device write, statuses incl. writable, fields with offsets/gaps/pulse/reset, 1..>2 bus words), bus width 8/32, big/little ordering, bank address, paging; histories of bus writes/reads (this bank, other bank, beyond the last register, aliases of the word index), full accessor sequences, idle cycles and device-side updates. The model predicts dat_r, every storage, every re/we strobe, every field value in every cycle; any difference is a violation.",
            "Trusted: Migen's simulator; the model. Atomic writes in both orderings (little ordering repaired, witness replayed). csr_bus.SRAM windows (memories 1 bit .. 8 bus words wide, paging, read-only forms, sub-word staging, device ports) and CSRBankArray with the gatherer, fixed locations, address_map and Interconnect / InterconnectShared (1-2 masters) are covered by the sub-checks `sram` and `bankarray` (checks/c12_sram.py): a placement model written from the documented rules plus per-cycle comparison of every master's dat_r, every storage, every strobe of all banks and the watched memory locations.",
            "DESIGN.md section 4 / C12"),
    "C15": ("exploration",
            "property-based testing (Hypothesis) + exhaustive alignment sweep: cycle-accurate pending/irq model vs the real EventManager behind a real CSRBank",
            "Generated managers (1..12 sources of kinds pulse / rising / falling / level; 8- and 32-bit CSR bus so that sources span words; 1..3 managers under SharedIRQ), per-cycle trigger waveforms and programs of complete accessor writes to pending/enable and reads of all three registers. Model: irq = OR(pending & enable) each cycle, set has priority over clear, clear only for written ones, level mirrors, status raw. Compared in every cycle (pending, status, enable, irq, shared irq) and on every bus read. Exhaustive: every kind x bus width x all (trigger start, clear-write cycle, pulse width) alignments in [2,10) x [1,12) x {1,2,3}.",
            "Trusted: Migen's simulator; CSR bank semantics (C12). Multi-word pending writes use the full accessor sequence (documented r/re semantics).",
            "DESIGN.md section 4 / C15"),
    "C16": ("exploration",
            "property-based testing (Hypothesis): independent byte-layout serialisation, round-trip, whole-packet/causality and atomicity oracles over generated headers, widths, packets and schedules",
            "Generated header definitions (1..6 fields, widths 1..64, byte/offset placement, lengths aligned or not to the data width, byte swapping), data widths 8..128, 1..6 back-to-back packets of 1..12 beats, generated valid/ready schedules and garbage on idle sinks. Packetizer alone against an independent serialisation (low byte first, last placement), Depacketizer alone against reference byte streams, Packetizer->(FIFO)->Depacketizer round trip of header fields, payload and last; PacketFIFO: whole packets in order with their own params, released only after the last beat was written; packet.Arbiter/Dispatcher (1..4 ports, binary/one-hot, selector changing every cycle): no interleaving, destination fixed at the first beat, every packet exactly once.",
            "Trusted: Migen's simulator and reverse_bytes, harness agents. Header params constant over a packet; packets fit the FIFO. Known findings excluded by construction and replayed: header shorter than a data word; swapped fields wider than 8 bits with width % 8 != 0.",
            "DESIGN.md section 4 / C16"),
    "C09": ("exploration",
            "property-based testing (Hypothesis): flat byte-memory scoreboard + hold/stability monitors with an independent-channel AXI-Lite master agent and a multi-accept memory slave agent over generated histories and channel schedules",
            "DUTs: AXILiteSRAM, AXILite2Wishbone, Wishbone2AXILite, AXILite2CSR, AXILiteDownConverter/UpConverter/Converter (ratios 2/4/8, widths 8..128), base-address offsets, word/byte Wishbone addressing. The master agent drives the five channels from independent generated schedules (AW/W skew incl. W first, up to K outstanding per direction, B/R back-pressure, garbage on idle channels) and serialises only dependent operations; the slave agent pre-asserts or withholds ready, queues up to Q requests, answers in order with schedule-driven latency and SLVERR ranges. Oracle: every read equals the flat memory, slave memory equals the model at the end, one response per request, errors propagate where the bridge has an error path, every valid/payload the DUT drives is held until ready (both sides), Wishbone requests stable until ack.",
            "Trusted: Migen's simulator, harness agents. Known findings excluded by construction and replayed: AXILiteUpConverter lane selection with two reads in flight / W before AW. AXI4 bridges (AXI2AXILite, AXILite2AXI, AXI2Wishbone, Wishbone2AXI), AHB2Wishbone (own AHB master agent) and every adapter chain SoCBusHandler.add_adapter builds (enumerated over standards x widths x addressing, plus generated programs) are covered by six further sub-checks (checks/c09_full.py); six recorded defect classes of AXI2AXILite / AXILite2AXI / AHB2Wishbone / add_adapter are excluded by construction and replayed from witnesses; AHB SEQ/BUSY transfers are not generated (the bridge ignores them), no error ranges behind AXILite2Wishbone (it has no error path).",
            "DESIGN.md section 4 / C09"),
    "C08": ("exploration",
            "property-based testing (Hypothesis): routing / exactly-once / in-order oracle from five-channel handshake logs plus per-slave memory scoreboards, with independent-channel master agents and multi-accept slave agents",
            "AXILiteArbiter, AXILiteDecoder, AXILiteInterconnectShared, AXILiteCrossbar and point-to-point, 1..3 x 1..3, disjoint maps decoded by the real SoCRegion.decoder. Masters issue programs through five independently scheduled channels (AW before/with W, B/R back-pressure, garbage while idle; several outstanding through the arbiter alone), slaves pre-assert or withhold ready, queue up to Q requests, answer with schedule-driven latency. Checked: each accepted write (address, data, strobe) and read address appears at exactly one slave - the one decoding it; each response reaches the issuing master exactly once, in order, with the right data; no stray responses; all masters are served; hold rule on every DUT-driven channel; final slave memories equal the model.",
            "Trusted: Migen's simulator, harness agents. Known findings excluded by construction and replayed: AXILiteDecoder with more than one outstanding request per direction, and W before AW. The AXI4 twins (AXIArbiter, AXIDecoder, AXIInterconnectShared, AXICrossbar, point-to-point) are exercised by four further sub-checks (checks/c08_axi.py) with INCR/FIXED/WRAP bursts of 1..16 beats, ids, up to 4 outstanding bursts per direction, byte-accurate memory slaves, an exhaustive sweep of lock windows, and blocked-channel progress cases; their decoder/arbiter share the AXI-Lite findings (W ahead of AW, requests for another slave while locked), excluded by construction and replayed; user/dest signals, AXI3 WID and the ignored `register` argument are not covered.",
            "DESIGN.md section 4 / C08"),
    "C01": ("translation_validation",
            "differential property-based testing (Hypothesis): generated FHDL programs executed by the repository's simulator and, from the emitted text, by an IEEE 1364-2005 evaluator written for the emitted subset; lock-step comparison of every register, comb signal and memory word",
            "Programs: grammar-generated fragments in two tiers (tier 1 assignment-normal form where no legitimate divergence exists - any disagreement is a violation; tier 2 nested arithmetic where vsim evaluates every right-hand side and condition twice, at IEEE context width and unbounded, and taints targets on which the two differ - disagreements on tainted signals are the known intermediate-overflow class, counted, not reported). Features: signedness mixes, constants incl. negative/boundary, slices/Cat/Replicate on both sides, Array reads, If/Elif/Else, Case with signed selectors, comb and sync logic in 1-2 clock domains with generated edge schedules, resets, non-zero/reset-less registers, memories (1-2 ports, every mode, granularity, read enable, async read, partial init), both comb emission styles. Each program runs 6..24 instants of generated stimuli in both executions; all compared signals and memory words are compared after every instant.",
            "Trusted: vsim (validated by conformance vectors taken from the standard's text - exit 2 on disagreement), CPython, Hypothesis. Not compared: 'output reg' ports (no initialiser in the emitted text), Instances (not executed). Known semantic-gap classes excluded by construction: memories are not reset in Verilog, multi-clock memories forced READ_FIRST, NO_CHANGE with granularity, mixed-signedness Arrays, out-of-range addresses. Corpus sub-check: 18 real cores of the repository at 45 parameterisations (stream, wishbone, CSR, packet, code, ECC, serial cores) are converted and run in lock-step on seeded random stimuli of all their undriven signals.",
            "DESIGN.md section 4 / C01"),
    "C11": ("fault_enumeration",
            "fault-injection property-based testing (Hypothesis) + exhaustive sweep of the fault offset: deadline / error-indication / undisturbed / recovery invariants from per-cycle port traces",
            "Wishbone InterconnectShared(timeout_cycles=T), AXILiteInterconnectShared, AXIInterconnectShared (single-beat), crossbars built with a timeout, and CPU-less SoCs for the bus_errors counter; T in {1,2,3,4,8,16}; 1-2 masters, 1-2 slaves behind real SoCRegion decoders. Faults: which slave goes silent, from when, for how long (finite/for ever), per-request answer latency 0..T+2 or never (so every alignment to the expiry cycle occurs; exhaustively for T <= 4), unmapped addresses, AW/W skew, master back-pressure on the forced response, followed by a recovery program for every master. Oracle: termination within T + c of being granted (c re-measured per standard), error indication (all-ones data + ack / SLVERR, exactly one error pulse), requests answered before expiry untouched, exactly one termination, recovery traffic correct for every master, bus_errors == number of forced terminations.",
            "Trusted: Migen's simulator, harness agents; constants c derived from the documented timer/FSM and re-measured on the healthy code. Seven known findings (crossbars ignore the timeout; AXI timeouts cover only acceptance; four RESPOND-state defects of AXILiteTimeout; merged error pulse) are keyed narrowly, excluded from the main envelope and replayed from witnesses.",
            "DESIGN.md section 4 / C11"),
    "C19": ("exploration",
            "property-based testing (Hypothesis): pin-level protocol monitors and cycle-accurate counter models over generated command histories, dividers, tuning words, phases and rate mismatch; hardware partner models for same-cycle reactions",
            "Timer (behind a real CSRBank: load/reload/en/update histories, zero event, one-shot after exactly load cycles, uptime), UART TX (per-bit-cell monitor, 4..48 cycles/bit, back-to-back), UART RX (fractional-time line driver inside the measured envelope: +-2 % at >= 16 cycles/bit, +-1 % at >= 8.68; framing errors, breaks), UART core with stub PHY (FIFO/status/events/auto flush), SPIMaster behind its CSRs with a mode-0 Migen slave (clock count, cs framing, MOSI MSB-first, MISO capture, divider rewritten at run time, overlapping starts), SPISlave, I2CMaster at its pads with a scripted Migen slave and a bus-legality monitor (commands also while busy), WaitTimer, timeline, PWM, Watchdog. Every history ends with a bounded return-to-idle requirement.",
            "Trusted: Migen's simulator, harness monitors/partners; CSR access through a real CSRBank (write in step t takes effect in cycle t+2, self-checked). Envelopes stated in ASSUMPTIONS. Not covered: MultiChannelPWM, UART with phy_cd != sys, I2C clock stretching.",
            "DESIGN.md section 4 / C19"),
    "C20": ("exploration",
            "property-based testing (Hypothesis): recomputation of every returned configuration in exact fractions + declared-range checks + Instance parameter equality; refusals judged by an independent search over the declared ranges",
            "Every helper family (Xilinx S6PLL/S6DCM/S7PLL/S7MMCM/US/US+, Lattice ECP5/iCE40/NX, Intel Cyclone IV/V/10LP/MAX10/Stratix V, Gowin GW1N/GW2A/GW5A, Efinix Trion via a stand-in platform, CologneChip GateMate) x device variants / speed grades x input frequencies (log-uniform and on the bounds) x 1..max outputs (frequency, phase, margin in {0, 1e-4, 1e-2, 5e-2}) plus by-construction requests built from dividers inside the declared ranges and edge requests just past a range end. If a configuration is returned: every output recomputed from the returned integers in Fraction within margin (slack 1e-12), every divider/multiplier/VCO/PFD inside the declared ranges, emitted Instance parameters equal the configuration. If refused: an independent interval search over the same ranges must find nothing. Exceptions other than the documented refusal are violations.",
            "Trusted: the per-family primitive formulas stated once in the adapters. Sixteen known findings (Gowin search/port/margin defects, ECP5 spare feedback divider and feedback search, NX reference divider not emitted / PFD window, iCE40 finalize crash, GW5A odiv range, Trion window/crash/margin) are keyed narrowly and replayed; refusals at margin 0 are not judged. TITANIUMPLL computes nothing in LiteX.",
            "DESIGN.md section 4 / C20"),
    "C10": ("exploration",
            "exhaustive enumeration of (burst, len, size) classes + property-based testing (Hypothesis): independent AMBA address formulae for the burst-to-beat expansion; AXI4 master / byte-accurate memory slave scoreboard for the width converters",
            "AXIBurst2Beat: ALL classes (FIXED len 0..15, INCR len 0..255 within the 4 KB rule, WRAP len 1/3/7/15 at every start position of the wrap window, sizes 0..7, three capability sets) x start-address variants x beat-stall and request-gap patterns x back-to-back bursts, plus generated burst sequences with generated schedules; compared per beat at transfer-size granularity with the AMBA formulae, beat count, first/last, id, request consumed exactly once with the last beat, hold rule. AXIUpConverter / AXIDownConverter / AXIConverter (ratios 2/4/8, 8..256 bit, 1-2 outstanding, both AW/W orders, error ranges): same bytes in the same order, R beats complete with last on the final one, exactly one B per burst, ids echoed, legal burst parameters and hold rule towards the slave.",
            "Trusted: Migen's simulator, harness agents, the AMBA formulae as transcribed (cross-checked by two independent implementations). Inside the converters' documented support only (full-width beats; up: aligned start and len+1 a multiple of the ratio); narrow transfers / FIXED len>0 down / single-beat reads through an up-converter are outside and fail on the real code (recorded in DESIGN.md).",
            "DESIGN.md section 4 / C10"),
    "C14": ("exploration",
            "property-based testing (Hypothesis): round trip export text -> parsed accessor sequence -> bus cycles on the simulated finalised SoC -> the register's own signal; byte-placement oracle for memory images",
            "Generated CPU-less SoCCores (wishbone/axi-lite/axi x 32/64-bit bus x shared/crossbar x CSR paging x CSR address width x CSR origin x 1..4 peripherals with generated storages/statuses of 1..70 bits and CSR-mapped memories, fixed CSR slots, SRAM sizes) are finalised, exported with the real get_csr_header / get_csr_json / get_csr_csv, and simulated with a test master attached through the SoC's own adapter path: every published writable register is written through its accessor sequence and its storage signal must hold the value while all other storages keep theirs; every drivable status is read back through its published sequence; CSR memory windows are read at first/last word; every RAM region (SRAM, main RAM, extra RAMs at generated origins, sizes that are no power of two, allocator-placed) gets unique values at its first/last word, all written before any is read back; the ROM is read against its image; with a CPU-like interrupt vector attached every peripheral's event is raised (enables written through the published registers) and the vector must read 1 << published number; C header (accessors and their C types), JSON, CSV, SVD (register addresses and bit ranges, regions, constants, interrupts), mem header, SoC header and linker regions must agree entry by entry; CONFIG_* constants and CSR constants must match the build. Images: get_mem_data for generated files, widths 32/64/128, both endiannesses, multi-region maps: every source byte at word (base+k)//B, lane per endianness.",
            "Trusted: Migen's simulator, tracer shim, the regex parser of the generated header. Known findings excluded by construction and replayed: csr_data_width=8 stride, little ordering vs big-endian accessors, big-endian images wider than 32 bit. SVD <resetValue>/<size> of sub-registers are not compared (the property speaks of locations); a region answering additionally outside its published window is only seen when it collides with another published region.",
            "DESIGN.md section 4 / C14"),
    "C05": ("exploration",
            "property-based testing (Hypothesis) + enumeration of clock phase relations: generated edge interleavings with per-bit first-flop resolution injected into every MultiReg; FIFO prefix relation, 'only real words' invariant, scoreboards",
            "The simulator's time manager is replaced by a generated list of instants (which domains rise together): periodic clocks at ratios 1/8..8 with every offset, near-equal periods drifting through all phases, bursts, alternation, coincidence runs, random instants. Every MultiReg is lowered flop-for-flop as stock, and whenever its input changes in the instant its destination clock rises, the first flop is patched to a generated per-bit mixture of exactly the values before and after that instant. DUTs: stream.ClockDomainCrossing (depth 4/8/16, buffered, common reset with derived domains ticked and reset pulses with tokens in flight), AsyncFIFO, UART FIFOs across domains, BusSynchronizer (widths 1..16, ratio <= 3, timeout > round trip): output only ever shows words the input really held, in order, and converges; AXILiteClockDomainCrossing with master and slave agents in different domains; stream.Monitor pulse paths; UARTBone(cd != sys). Conformance: Migen's healthy AsyncFIFO survives the injection; a plain multi-bit MultiReg in place of BusSynchronizer is caught.",
            "Trusted: Migen's simulator; metastability lasts at most one destination cycle (what a two-flop synchroniser assumes); AsyncResetSynchronizer is modelled as a synchronous reset by the simulator. Known finding (Monitor status words cross through a plain MultiReg) is keyed and replayed.",
            "DESIGN.md section 4 / C05, section 10.6"),
}

NOT_YET = {}


# extensions built after the first round (appended to the level text of the property)
ADDENDA = {
    "C19": " Clock pulses on the shared SPI bus while the slave is deselected.",
    "C18": " Enumerated sub-check all-widths: every data width 9..128 with single flips at boundary / power-of-two positions (thorough: all positions).",
    "C07": " An SRAM wired as an unselected slave of the same bus (cyc low) must neither answer nor change. Word-addressed remapper with its default size.",
    "C04": " Consumers whose ready answers valid; dispatcher selector values that designate no slave; depacketizer packets ending in the residue word.",
    "C02": " The same design elaborated repeatedly in one process must give the same text; user ports called like clock-domain signals; the clock of every always block must be the namespace's name of a domain clock. Names differing in case only; first-level sub-module signals as ports.",
    "C01": " Driven signals are also made ports of the converted module (output wire / output reg): port directions and the net/variable legality of every assignment in the emitted text (IEEE 1364 6.1, 9.2) are part of the oracle. Sparse stimuli (one input changes per instant), a combinatorial demultiplexer whose select nothing else reads, inputs called like clock-domain signals. Case on the complement of an unsigned selector.",
    "C03": " Pack/Unpack ratios up to 8, converter ratios 5/6, stride ratios 6/8. Consumers whose ready answers valid.",
    "C05": " Sub-check uart-core-cdc: UART(phy_cd != sys) with its software side driven through a real CSR bank in sys and the PHY side in another domain.",
    "C06": " Topology 'socbus': the interconnect SoCBusHandler.do_finalize composes from masters / slaves / regions declared through its API (shared or crossbar requested; point-to-point only for one master and one slave at origin 0). Masters of different address widths on one interconnect. Regions declared first and slaves bound by name later in another order.",
    "C08": " Sub-check axilite-deep-queues: AXILiteArbiter with 4..8 requests of one direction outstanding at a queueing slave while other masters compete. AXI-Lite masters of different address widths.",
    "C09": " AXILite2CSR also receives partial write strobes (any non-zero strobe writes the word).",
    "C10": " R stalls with varying id / resp through AXIDownConverter; single beats of intermediate size at ratio 4/8; transfers not wider than the narrow bus are a recorded known finding (not generated).",
    "C11": " The SoC error counter is also started close to its maximum (saturation). Enumerated sub-check socbus-timeout: buses composed by SoCBusHandler with a timeout configured. The controller's CPU reset bit written during the SoC history.",
    "C12": " CSR bus address widths 15/16 with banks in the pages only the extra address bits reach.",
    "C13": " Uncached regions declared at fixed origins must lie inside an IO region (origins generated around the ends of declared IO regions). Reserved CSR locations given at construction; generated-form master names; region requests nested in / overlapping earlier ones with linker-only regions inside. Regions without decoding (decode=False) next to others: the bus's own finalisation decides; known finding: regions smaller than one bus word.",
    "C14": " atomic_write storages written through the published accessor order; CSR memory windows wider than the CSR word and larger than one page, accessed through the published page register; registers made of fields: header OFFSET/SIZE macros, SVD bit-range pieces and the hardware's field signals.",
    "C15": " Sub-checks uart-client and timer-client: the UART and Timer cores' own event managers (pending cleared by software's write-one only, also with rx_fifo_rx_we).",
    "C16": " Header field names are generated in an order unrelated to the fields' positions. Dispatcher selector values that designate no slave.",
}


def main():
    props = [json.loads(l) for l in open(os.path.join(HERE, "properties.jsonl"))]
    checks = []
    na = []
    for p in props:
        pid = p["id"]
        if pid in CHECKS:
            cat, tech, text, note, ref = CHECKS[pid]
            text = text + ADDENDA.get(pid, "")
            checks.append({
                "property_id": pid,
                "quick_cmd": "/venv/bin/python run.py %s --tier quick" % pid,
                "thorough_cmd": "/venv/bin/python run.py %s --tier thorough" % pid,
                "evidence_file": "evidence/%s.json" % pid,
                "replay_cmd_template": "/venv/bin/python run.py %s --replay {path}" % pid,
                "engine": "run.py",
                "level_claimed": {"category": cat, "text": text, "design_ref": ref},
                "level_note": note,
                "technique": tech,
            })
        else:
            na.append({"property_id": pid,
                       "reason": NOT_YET.get(pid, "check not built yet (work in progress; generated-search design in DESIGN.md section 4) - not claimed until it is quiet on the unchanged tree and kills its mutants")})
    m = {
        "version": 1,
        "setup_cmd": "/venv/bin/python -m pip install -q --no-index --find-links /opt/veriftools/wheels hypothesis numpy",
        "hooks": {
            "guard": "LITEX_VERIF",
            "enable": "none needed: all observation points are public signals/attributes; no guarded source changes exist",
            "baseline_off_cmd": "cd /repo && /venv/bin/python -m pytest -q -p no:cacheprovider --timeout=900 --continue-on-collection-errors",
            "source_commits": [],
            "add_only": True,
        },
        "engines": [{"name": "run.py", "path": "run.py", "serves_properties": sorted(CHECKS),
                     "kind_free_text": "Hypothesis-driven generated search + enumerated sub-domains over the repository's own Python simulator; sharded over 16 processes; shrunk failures become replay files"}],
        "checks": checks,
        "notes": "All checks: cwd /verif, `/venv/bin/python run.py <id> --tier quick|thorough`, VERIF_SEED honoured, exit 2 = harness error. Known findings in known_findings.json; regress replays in replays/regress/<id>/.",
        "not_applicable": na,
    }
    with open(os.path.join(HERE, "MANIFEST.json"), "w") as f:
        json.dump(m, f, indent=1)
    # validate
    try:
        import jsonschema
        jsonschema.validate(m, json.load(open("/root/.vp/MANIFEST.schema.json")))
        print("manifest valid; claimed:", sorted(CHECKS))
    except ImportError:
        print("jsonschema not available; written without validation")


if __name__ == "__main__":
    main()
